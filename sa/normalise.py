"""Analysis view of a module: behaviour-preserving normalisations applied to the parsed tree before any rule looks at it, so that
harmless refactorings do not change what the rules see.

 N1  helper inlining.  A *new* small helper (a function whose qualified name is not in known_functions.json -- the list of
     functions that existed when the rules were written and that rules may refer to by name) is transparent: a statement-level call
     to it is replaced by its body (parameters substituted; `return` at the tail spliced, early returns encoded with a one-trip loop
     and `break`).  Extracting a block into `_helper(...)` therefore leaves the analysed function unchanged.
 N2  boolean temporaries.  `flag = <comparison / and / or / not>` assigned exactly once is substituted into the tests that use it
     (`if flag:`), the assignment stays.
 N3  conditional expressions.  `x = A if C else B` / `return A if C else B` become the equivalent if/else statements.

Everything is done on a private copy of each function's statements; line numbers are kept from the original nodes."""
import ast, copy, json, os

KNOWN = None
MAX_HELPER_STMTS = 30


def known_functions():
    global KNOWN
    if KNOWN is None:
        p = os.path.join(os.path.dirname(__file__), 'known_functions.json')
        KNOWN = set(json.load(open(p))) if os.path.exists(p) else None
    return KNOWN


# ---------------------------------------------------------------------------------------------------------------- helpers
def _stmts(node):
    return sum(1 for x in ast.walk(node) if isinstance(x, ast.stmt))


def _tail_returns_only(body):
    """every Return in `body` is in tail position"""
    def ok(stmts, tail):
        for i, st in enumerate(stmts):
            last = tail and i == len(stmts) - 1
            if isinstance(st, ast.Return):
                if not last: return False
            elif isinstance(st, ast.If):
                if not ok(st.body, last) or not ok(st.orelse, last): return False
            elif isinstance(st, (ast.FunctionDef, ast.AsyncFunctionDef, ast.ClassDef)): continue
            else:
                if any(isinstance(x, ast.Return) for x in ast.walk(st)): return False
        return True
    return ok(body, True)


def eligible_helper(fn, qual, modname):
    kf = known_functions()
    if kf is None or (modname + '.' + qual) in kf: return False
    n = fn.name
    if n.startswith('__') and n.endswith('__'): return False
    if isinstance(fn, ast.AsyncFunctionDef) or fn.decorator_list: return False
    a = fn.args
    if a.vararg or a.kwarg or a.kwonlyargs or a.posonlyargs: return False
    if any(not isinstance(d, ast.Constant) for d in a.defaults): return False
    if _stmts(fn) - 1 > MAX_HELPER_STMTS: return False
    for x in ast.walk(fn):
        if x is fn: continue
        if isinstance(x, (ast.Yield, ast.YieldFrom, ast.Await, ast.FunctionDef, ast.AsyncFunctionDef, ast.ClassDef, ast.Global, ast.Nonlocal)): return False
        if isinstance(x, ast.Call) and ((isinstance(x.func, ast.Name) and x.func.id == n) or (isinstance(x.func, ast.Attribute) and x.func.attr == n)): return False
    return True


class _Subst(ast.NodeTransformer):
    def __init__(self, mapping): self.m = mapping
    def visit_Name(self, node):
        if node.id in self.m and isinstance(node.ctx, ast.Load):
            return ast.copy_location(copy.deepcopy(self.m[node.id]), node)
        return node


def _loc(new, old):
    for x in ast.walk(new):
        if not hasattr(x, 'lineno'):
            try: ast.copy_location(x, old)
            except Exception: pass
    ast.fix_missing_locations(new)
    return new


class Inliner:
    def __init__(self, modname, tree):
        self.modname = modname
        self.helpers = {}          # name -> (FunctionDef, is_method)
        dup = set()
        def scan(body, prefix, in_class):
            for st in body:
                if isinstance(st, (ast.FunctionDef, ast.AsyncFunctionDef)):
                    if eligible_helper(st, prefix + st.name, modname):
                        if st.name in self.helpers: dup.add(st.name)
                        self.helpers[st.name] = (st, in_class)
                elif isinstance(st, ast.ClassDef): scan(st.body, prefix + st.name + '.', True)
        scan(tree.body, '', False)
        for d in dup: self.helpers.pop(d, None)       # ambiguous name: leave alone
        self.counter = 0
        self.inlined = {}          # helper name -> number of call sites inlined

    # ---- find an inlinable call
    def helper_of(self, call):
        if isinstance(call.func, ast.Name) and call.func.id in self.helpers and not self.helpers[call.func.id][1]:
            return self.helpers[call.func.id][0], None
        if isinstance(call.func, ast.Attribute) and call.func.attr in self.helpers and self.helpers[call.func.attr][1]:
            return self.helpers[call.func.attr][0], call.func.value
        return None, None

    def bind(self, helper, recv, call):
        params = [a.arg for a in helper.args.args]
        args = ([recv] if recv is not None else []) + list(call.args)
        if any(isinstance(a, ast.Starred) for a in args) or any(k.arg is None for k in call.keywords): return None
        if len(args) > len(params): return None
        m = dict(zip(params, args))
        for k in call.keywords:
            if k.arg not in params or k.arg in m: return None
            m[k.arg] = k.value
        nd = len(helper.args.defaults)
        for p, d in zip(params[len(params) - nd:], helper.args.defaults):
            m.setdefault(p, d)
        if set(m) != set(params): return None
        return m

    def expand(self, helper, mapping, target_stmt_factory, site):
        """-> list of statements equivalent to the call; target_stmt_factory(value_expr or None) builds the statement that consumes a
        returned value (None for plain expression statements)"""
        body = copy.deepcopy(helper.body)
        if body and isinstance(body[0], ast.Expr) and isinstance(body[0].value, ast.Constant) and isinstance(body[0].value.value, str): body = body[1:]
        stored = {x.id for st in body for x in ast.walk(st) if isinstance(x, ast.Name) and isinstance(x.ctx, ast.Store)}
        pre = []; sub = {}
        for p, a in mapping.items():
            simple = isinstance(a, (ast.Name, ast.Constant)) or (isinstance(a, ast.Attribute) and isinstance(a.value, ast.Name))
            if simple and p not in stored: sub[p] = a
            else:
                pre.append(_loc(ast.Assign(targets=[ast.Name(id=p, ctx=ast.Store())], value=copy.deepcopy(a)), site))
        body = [_Subst(sub).visit(st) for st in body]
        tail = _tail_returns_only(body)
        if tail:
            def fix(stmts):
                out = []
                for st in stmts:
                    if isinstance(st, ast.Return):
                        made = target_stmt_factory(st.value)
                        if made is not None: out.append(_loc(made, st))
                        elif st.value is not None and not isinstance(st.value, (ast.Constant, ast.Name)): out.append(_loc(ast.Expr(value=st.value), st))
                        else: out.append(_loc(ast.Pass(), st))
                    elif isinstance(st, ast.If):
                        st.body = fix(st.body) or [_loc(ast.Pass(), st)]; st.orelse = fix(st.orelse); out.append(st)
                    else: out.append(st)
                return out
            body = fix(body)
            if target_stmt_factory(None) is not None and not any(isinstance(x, ast.Return) for st in helper.body for x in ast.walk(st)):
                body.append(_loc(target_stmt_factory(ast.Constant(value=None)), site))
            elif target_stmt_factory(None) is not None:
                pass
            return pre + body
        # early returns: one-trip loop, `return v` -> consume v; break
        class R(ast.NodeTransformer):
            def visit_Return(self_, node):
                made = target_stmt_factory(node.value if node.value is not None else ast.Constant(value=None))
                out = []
                if made is not None: out.append(_loc(made, node))
                elif node.value is not None and not isinstance(node.value, (ast.Constant, ast.Name)): out.append(_loc(ast.Expr(value=node.value), node))
                out.append(_loc(ast.Break(), node))
                return out
            def visit_For(self_, node): return node        # a return inside an inner loop would need a flag: not handled -> see caller
            def visit_While(self_, node): return node
        if any(isinstance(x, ast.Return) for st in body for y in ast.walk(st) if isinstance(y, (ast.For, ast.While)) for x in ast.walk(y)): return None
        body = [R().visit(st) for st in body]
        flat = []
        for st in body: flat.extend(st if isinstance(st, list) else [st])
        made = target_stmt_factory(ast.Constant(value=None))
        if made is not None: flat.append(_loc(made, site))         # falling off the end returns None
        loop = ast.For(target=ast.Name(id='__once', ctx=ast.Store()), iter=ast.Tuple(elts=[ast.Constant(value=None)], ctx=ast.Load()), body=flat or [ast.Pass()], orelse=[])
        return pre + [_loc(loop, site)]

    def inline_stmt(self, st):
        """-> replacement statement list or None"""
        def factory_for(kind, st):
            if kind == 'expr': return lambda v: None
            if kind == 'assign': return lambda v: None if v is None else ast.Assign(targets=copy.deepcopy(st.targets), value=v)
            if kind == 'aug': return lambda v: None if v is None else ast.AugAssign(target=copy.deepcopy(st.target), op=st.op, value=v)
            if kind == 'return': return lambda v: None if v is None else ast.Return(value=v)
        call = kind = None
        if isinstance(st, ast.Expr) and isinstance(st.value, ast.Call): call, kind = st.value, 'expr'
        elif isinstance(st, ast.Assign) and isinstance(st.value, ast.Call): call, kind = st.value, 'assign'
        elif isinstance(st, ast.AugAssign) and isinstance(st.value, ast.Call): call, kind = st.value, 'aug'
        elif isinstance(st, ast.Return) and isinstance(st.value, ast.Call): call, kind = st.value, 'return'
        if call is not None:
            h, recv = self.helper_of(call)
            if h is not None:
                m = self.bind(h, recv, call)
                if m is not None:
                    out = self.expand(h, m, factory_for(kind, st), st)
                    if out is not None:
                        self.inlined[h.name] = self.inlined.get(h.name, 0) + 1
                        return out
        # a call buried in the statement's expression (or an if-test): hoist the first eligible one into a temporary
        holder = st.test if isinstance(st, ast.If) else st.value if isinstance(st, (ast.Expr, ast.Assign, ast.AugAssign, ast.Return)) and getattr(st, 'value', None) is not None else None
        if holder is None: return None
        for c in ast.walk(holder):
            if isinstance(c, ast.Call) and c is not call:
                h, recv = self.helper_of(c)
                if h is None: continue
                m = self.bind(h, recv, c)
                if m is None: continue
                self.counter += 1
                tmp = '__inl%d' % self.counter
                asg = _loc(ast.Assign(targets=[ast.Name(id=tmp, ctx=ast.Store())], value=c), st)
                pre = self.expand(h, m, lambda v: None if v is None else ast.Assign(targets=[ast.Name(id=tmp, ctx=ast.Store())], value=v), st)
                if pre is None: continue
                self.inlined[h.name] = self.inlined.get(h.name, 0) + 1
                class Rep(ast.NodeTransformer):
                    def visit_Call(self_, node):
                        if node is c: return ast.copy_location(ast.Name(id=tmp, ctx=ast.Load()), node)
                        return self_.generic_visit(node)
                if isinstance(st, ast.If): st.test = Rep().visit(st.test)
                else: st.value = Rep().visit(st.value)
                return pre + [st]
        return None

    def run(self, body, depth=0):
        """inline in a statement list (recursively into compound statements)"""
        out = []
        for st in body:
            rep = self.inline_stmt(st) if self.helpers else None
            if rep is not None and depth < 3:
                out.extend(self.run(rep, depth + 1))
                continue
            for fld in ('body', 'orelse', 'finalbody'):
                b = getattr(st, fld, None)
                if isinstance(b, list) and b and isinstance(b[0], ast.stmt) and not isinstance(st, (ast.ClassDef,)):
                    setattr(st, fld, self.run(b, depth))
            for h in getattr(st, 'handlers', []) or []: h.body = self.run(h.body, depth)
            out.append(st)
        return out


# ---------------------------------------------------------------------------------------------------------------- N3
def expand_ifexp(body):
    out = []
    for st in body:
        for fld in ('body', 'orelse', 'finalbody'):
            b = getattr(st, fld, None)
            if isinstance(b, list) and b and isinstance(b[0], ast.stmt) and not isinstance(st, ast.ClassDef): setattr(st, fld, expand_ifexp(b))
        for h in getattr(st, 'handlers', []) or []: h.body = expand_ifexp(h.body)
        v = getattr(st, 'value', None)
        if isinstance(st, (ast.Assign, ast.Return, ast.AugAssign)) and isinstance(v, ast.IfExp):
            def mk(val):
                n = copy.deepcopy(st); n.value = val; return n
            new = ast.If(test=v.test, body=expand_ifexp([mk(v.body)]), orelse=expand_ifexp([mk(v.orelse)]))
            out.append(_loc(new, st))
        else: out.append(st)
    return out


# ---------------------------------------------------------------------------------------------------------------- N2
def _is_boolish(e):
    """a condition: comparison, `not ...`, or and/or with at least one such operand"""
    if isinstance(e, ast.Compare): return True
    if isinstance(e, ast.UnaryOp) and isinstance(e.op, ast.Not): return True
    if isinstance(e, ast.BoolOp): return any(_is_boolish(v) for v in e.values)
    return False


def subst_bool_temps(fn):
    """`flag = <condition>` immediately followed by `if ... flag ...:` (the condition hoisted into a local for readability): the test sees the
    condition itself.  Only the directly following `if` is rewritten -- a flag that is tested later may be a snapshot of state that has changed
    in between (SQLiteProvider.commit samples in_transaction before delegating), so it is left alone."""
    counts = {}
    for x in ast.walk(fn):
        if isinstance(x, ast.Name) and isinstance(x.ctx, ast.Store): counts[x.id] = counts.get(x.id, 0) + 1
    def do(body):
        for i, st in enumerate(body):
            for fld in ('body', 'orelse', 'finalbody'):
                b = getattr(st, fld, None)
                if isinstance(b, list) and b and isinstance(b[0], ast.stmt) and not isinstance(st, (ast.ClassDef, ast.FunctionDef, ast.AsyncFunctionDef)): do(b)
            for h in getattr(st, 'handlers', []) or []: do(h.body)
            if not (isinstance(st, ast.Assign) and len(st.targets) == 1 and isinstance(st.targets[0], ast.Name) and _is_boolish(st.value)): continue
            name = st.targets[0].id
            if counts.get(name, 0) != 1 or i + 1 >= len(body) or not isinstance(body[i + 1], ast.If): continue
            nxt = body[i + 1]
            def rec(e):
                if isinstance(e, ast.Name) and e.id == name: return ast.copy_location(copy.deepcopy(st.value), e)
                if isinstance(e, ast.UnaryOp) and isinstance(e.op, ast.Not): e.operand = rec(e.operand)
                elif isinstance(e, ast.BoolOp): e.values = [rec(v) for v in e.values]
                return e
            nxt.test = rec(nxt.test)
    do(fn.body)


# ---------------------------------------------------------------------------------------------------------------- entry point
def normalise_module(modname, tree):
    if getattr(tree, '_sa_normalised', False): return tree
    inl = Inliner(modname, tree)
    def visit(body):
        for st in body:
            if isinstance(st, (ast.FunctionDef, ast.AsyncFunctionDef)):
                if inl.helpers and st.name not in inl.helpers: st.body = inl.run(st.body)
                st.body = expand_ifexp(st.body)
                subst_bool_temps(st)
                visit(st.body)
            elif isinstance(st, ast.ClassDef): visit(st.body)
            else:
                for fld in ('body', 'orelse', 'finalbody'):
                    b = getattr(st, fld, None)
                    if isinstance(b, list) and b and isinstance(b[0], ast.stmt): visit(b)
                for h in getattr(st, 'handlers', []) or []: visit(h.body)
    visit(tree.body)
    ast.fix_missing_locations(tree)
    tree._sa_normalised = True
    # a helper is transparent only if every call of it was inlined; one with a remaining call site stays an ordinary function
    remaining = set()
    helper_nodes = {id(h) for h, _ in inl.helpers.values()}
    def scan(node, inside_helper):
        for ch in ast.iter_child_nodes(node):
            ih = inside_helper or id(ch) in helper_nodes
            if isinstance(ch, ast.Call) and not ih:
                nm = ch.func.id if isinstance(ch.func, ast.Name) else ch.func.attr if isinstance(ch.func, ast.Attribute) else None
                if nm in inl.helpers: remaining.add(nm)
            if isinstance(ch, (ast.Name, ast.Attribute)) and not ih and not isinstance(node, ast.Call):
                nm = ch.id if isinstance(ch, ast.Name) else ch.attr
                if nm in inl.helpers and isinstance(getattr(ch, 'ctx', None), ast.Load): remaining.add(nm)      # passed around as a value
            scan(ch, ih)
    scan(tree, False)
    tree._sa_inlined_helpers = sorted(n_ for n_ in inl.helpers if n_ not in remaining and inl.inlined.get(n_, 0) > 0)
    return tree
