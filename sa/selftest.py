"""Checker validation: apply each mutant of a property's corpus to an in-memory overlay of the current tree
(nothing is written to disk), re-run the property's rules, and require a *new* failed obligation naming the
expected rule.  The unmutated tree's failed obligations are the reference (known findings stay as they are)."""
import ast, os
from concurrent.futures import ProcessPoolExecutor
from .loader import Repo, AnalysisError


def apply_mutant(repo, m):
    """-> (rel, new source) or None when the mutant's anchor text is no longer present (stale)"""
    mod = repo.by_rel.get(m['file'])
    if mod is None: return None
    src = mod.src
    lo, hi = 0, len(src)
    if m.get('fn'):
        f = repo.funcs.get(mod.name + '.' + m['fn'])
        if f is None: return None
        lines = src.splitlines(keepends=True)
        start = f.node.lineno - 1
        if f.node.decorator_list: start = min(d.lineno for d in f.node.decorator_list) - 1
        lo = sum(len(l) for l in lines[:start]); hi = sum(len(l) for l in lines[:f.node.end_lineno])
    region = src[lo:hi]
    n = region.count(m['old'])
    if n == 0: return None
    k = m.get('nth', 0)
    if n > 1 and 'nth' not in m: return None           # ambiguous anchor = stale
    idx = -1
    for _ in range(k + 1): idx = region.find(m['old'], idx + 1)
    if idx < 0: return None
    new = src[:lo] + region[:idx] + m['new'] + region[idx + len(m['old']):] + src[hi:]
    try: ast.parse(new)
    except SyntaxError: return None
    return m['file'], new


_BASE = None


def _one(args):
    prop, root, m, base_failed = args
    from .engine import analyse
    global _BASE
    try:
        if _BASE is None or _BASE.root != Repo.__init__.__defaults__ and _BASE.root != __import__('os').path.abspath(root): _BASE = Repo(root)
        base = _BASE
        ap = apply_mutant(base, m)
        if ap is None: return m['id'], 'stale', ''
        repo = Repo(root, overlay={ap[0]: ap[1]}, base=base)
        try:
            ctx, _ = analyse(prop, repo)
        except AnalysisError as e:
            if m.get('benign'): return m['id'], 'false-alarm', 'ANALYSIS-ERROR ' + str(e)
            # fail-closed is acceptable only when the mutant says so
            return m['id'], ('detected' if m.get('expect') == 'ANALYSIS-ERROR' else 'error'), str(e)
        new = [o for o in ctx.obs if not o.ok and o.key not in base_failed]
        if m.get('benign'):
            # behaviour-preserving variant: the rules must stay silent
            quiet = not new and not ctx.floor_failures
            return m['id'], ('detected' if quiet else 'false-alarm'), '; '.join([o.key for o in new] + ctx.floor_failures)[:300]
        exp = m.get('expect', '')
        hit = [o for o in new if exp in o.key]
        if hit: return m['id'], 'detected', hit[0].key
        if ctx.floor_failures and not m.get('benign') and m.get('expect') == 'ANALYSIS-ERROR': return m['id'], 'detected', 'floor'
        return m['id'], 'missed', '; '.join(o.key for o in new)[:300]
    except Exception as e:
        import traceback
        return m['id'], 'error', traceback.format_exc()[-400:]


def run_for(prop, repo, emit=print, jobs=None):
    from .engine import analyse, load_rule
    mod = load_rule(prop)
    muts = list(getattr(mod, 'MUTANTS', []))
    ctx, _ = analyse(prop, Repo(repo.root))
    base_failed = {o.key for o in ctx.obs if not o.ok}
    res = {'mutants': len(muts), 'detected': 0, 'missed': [], 'stale': [], 'errors': [], 'clean_alarm': [], 'details': {}}
    if not muts: return res
    jobs = jobs or min(16, len(muts), os.cpu_count() or 1)
    args = [(prop, repo.root, m, base_failed) for m in muts]
    with ProcessPoolExecutor(max_workers=jobs) as ex:
        for mid, status, info in ex.map(_one, args):
            res['details'][mid] = {'status': status, 'info': info}
            if status == 'detected': res['detected'] += 1
            elif status == 'stale': res['stale'].append(mid)
            elif status == 'missed': res['missed'].append(mid)
            elif status == 'false-alarm': res['clean_alarm'].append(mid)
            else: res['errors'].append(mid); res['missed'].append(mid)
    return res
