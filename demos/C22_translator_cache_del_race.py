"""Two threads invalidate the same stale translator: the loser's `del database._translator_cache[key]` raises KeyError.
The interleaving is forced deterministically: while thread A is between its cache lookup and its invalidation, thread B
runs the same query to completion."""
import threading
from pony.orm import *
import tempfile, os
fn = os.path.join(tempfile.mkdtemp(), 'c22.sqlite')
db = Database('sqlite', fn, create_db=True)
class P(db.Entity):
    name = Required(str)
    city = Required(str)
db.generate_mapping(create_tables=True)
with db_session:
    P(name='Alice', city='Paris')

def fetch(attr):
    with db_session:
        return select(getattr(p, attr) for p in P)[:]

fetch('name')                      # warm: translator cached with fixed param attr='name'

b_deleted, a_done = threading.Event(), threading.Event()
class HookedDict(dict):
    armed = False
    def get(self, key, default=None):
        val = dict.get(self, key, default)
        if HookedDict.armed and val is not None and threading.current_thread().name == 'A':
            HookedDict.armed = False
            self.tb = threading.Thread(target=lambda: results.__setitem__('B', fetch('city')), name='B'); self.tb.start()
            b_deleted.wait(5)                       # B has looked the stale entry up and removed it, and is parked before re-storing
        return val
    def _park_b(self):
        if threading.current_thread().name == 'B' and not b_deleted.is_set():
            b_deleted.set(); a_done.wait(5)
    def __delitem__(self, key):
        dict.__delitem__(self, key); self._park_b()
    def pop(self, key, *default):
        r = dict.pop(self, key, *default); self._park_b(); return r
db._translator_cache = HookedDict(db._translator_cache)
results = {}
def run_a():
    try: results['A'] = fetch('city')
    except BaseException as e: results['A'] = e
    finally: a_done.set()
HookedDict.armed = True
ta = threading.Thread(target=run_a, name='A'); ta.start(); ta.join(); db._translator_cache.tb.join()
print(results)
assert results.get('B') == ['Paris'], results
assert results.get('A') == ['Paris'], 'thread A failed although it would succeed alone: %r' % (results.get('A'),)
print('PASS')
