"""C31: relationship keys in the serialisation bag when the related entity's single key attribute spans several columns.

RoomDetail has ONE primary key attribute, `room`, which refers to Room -- whose key is (building, number).  The raw key of a RoomDetail therefore
has two columns although `_pk_is_composite_` (number of key *attributes* > 1) is False.  Bag._process_object chose between the composite encoding
and `raw_key[0]` by `_pk_is_composite_`, so the keys listed for a collection of RoomDetail objects were cut down to the building alone: distinct
related objects were reported under equal keys (and not under the keys that Bag.to_dict uses for the objects themselves).

Run: PYTHONPATH=/repo /venv/bin/python demos/C31_collection_keys_of_a_reference_key.py   (exit 1 on the tree before pony commit c5564ee)"""
import sys
from pony.orm import *
from pony.orm.serialization import to_dict
db = Database('sqlite', ':memory:')
class Room(db.Entity):
    building = Required(str); number = Required(int); PrimaryKey(building, number)
    detail = Optional('RoomDetail')
class Inspector(db.Entity):
    name = Required(str)
    details = Set('RoomDetail')
class RoomDetail(db.Entity):
    room = PrimaryKey(Room)
    note = Optional(str)
    inspector = Optional(Inspector)
db.generate_mapping(create_tables=True)
with db_session:
    i = Inspector(name='Kim')
    for n in (1, 2, 3): RoomDetail(room=Room(building='A', number=n), note='n%d' % n, inspector=i)
with db_session:
    i = Inspector[1]
    d = to_dict([i] + list(i.details))
    listed = d['Inspector'][1]['details']
    own = sorted(d['RoomDetail'])
    print('keys listed for Inspector.details:', listed)
    print('keys of the RoomDetail objects   :', own)
    ok = len(set(map(str, listed))) == 3 and sorted(map(str, listed)) == own
print('PASS' if ok else 'FAIL: three distinct related objects are listed under %d distinct key(s), which are not the keys of the objects' % len(set(map(str, listed))))
sys.exit(0 if ok else 1)
