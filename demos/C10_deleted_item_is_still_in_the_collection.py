"""C10: `item in collection` after item.delete() (repaired by pony commit 924409b).

For a one-to-many collection SetInstance.__contains__ answers from the item's own reference attribute (`item.s is owner`).  delete() takes the
item out of the owner's collection but leaves the deleted item's attribute values as they were, so `n in s.notes` stayed True while iteration,
len() and count() of the same collection no longer contained n -- two reads of one session contradicting each other.

Run: PYTHONPATH=/repo /venv/bin/python demos/C10_deleted_item_is_still_in_the_collection.py   (exit 1 on the tree before the fix)"""
import sys
from pony.orm import *
db = Database('sqlite', ':memory:')
class S(db.Entity):
    name = Required(str); notes = Set('N')
class N(db.Entity):
    text = Required(str); s = Optional(S)
db.generate_mapping(create_tables=True)
with db_session:
    s = S(name='s'); N(text='a', s=s); N(text='b', s=s)
ok = True
for preload in (False, True):
    with db_session:
        s = S[1]; n = N[1]
        if preload: list(s.notes)
        n.delete()
        seen = (n in s.notes, sorted(x.id for x in s.notes), len(s.notes), s.notes.count())
        print('collection loaded before the delete: %-5s  in=%s list=%s len=%s count=%s' % ((preload,) + seen))
        ok = ok and seen == (False, [2], 1, 1)
        rollback()
print('PASS' if ok else 'FAIL: `in` reports a deleted item as a member while iteration, len() and count() do not'); sys.exit(0 if ok else 1)
