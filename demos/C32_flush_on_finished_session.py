from pony.orm import *
db = Database('sqlite', ':memory:')
class P(db.Entity):
    name = Required(str)
db.generate_mapping(create_tables=True)
with db_session:
    p = P(name='x')
    rollback()
try: p.flush()
except DatabaseSessionIsOver: print('PASS')
except BaseException as e: raise AssertionError('flush() on object of finished session raised %r, not DatabaseSessionIsOver' % e)
else: raise AssertionError('no error')
