from pony.orm import *
import datetime
db = Database('sqlite', ':memory:')
class T(db.Entity):
    d = Optional(datetime.date)
    dt = Optional(datetime.datetime)
db.generate_mapping(create_tables=True)
with db_session:
    T(id=1, d=datetime.date(999, 1, 2), dt=datetime.datetime(999, 1, 2, 3, 4, 5))
with db_session:
    y = T[1]
    print(repr(y.d), repr(y.dt))
    assert y.d == datetime.date(999, 1, 2), 'date: read %r' % (y.d,)
    assert y.dt == datetime.datetime(999, 1, 2, 3, 4, 5)
print('PASS')
