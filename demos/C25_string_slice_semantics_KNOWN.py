"""String slicing in queries vs Python, constants and parameters, on SQLite.  The only mismatches left are the forms of the recorded finding
C25-SENTINEL (s[:-1], s[0:-1]: the omitted stop is represented by -1), see C25_slice_minus_one_KNOWN.py; exit 1 while it is present."""
from pony.orm import *
db = Database('sqlite', ':memory:')
class P(db.Entity):
    name = Required(str)
db.generate_mapping(create_tables=True)
words = ['a', 'ab', 'abc', 'abcdefgh', 'xyz12']
with db_session:
    for w in words: P(name=w)
bad = []
def check(label, got, want):
    if got != want: bad.append('%s: query %r, Python %r' % (label, got, want))
with db_session:
    # constant bounds (literals in the query text)
    check('s[:-1]', select(p.name[:-1] for p in P).order_by(1)[:], sorted(w[:-1] for w in words))
    check('s[0:-1]', select(p.name[0:-1] for p in P).order_by(1)[:], sorted(w[0:-1] for w in words))
    check('s[1:-1]', select(p.name[1:-1] for p in P).order_by(1)[:], sorted(w[1:-1] for w in words))
    check('s[:2]', select(p.name[:2] for p in P).order_by(1)[:], sorted(w[:2] for w in words))
    check('s[-2:]', select(p.name[-2:] for p in P).order_by(1)[:], sorted(w[-2:] for w in words))
    check('s[:]', select(p.name[:] for p in P).order_by(1)[:], sorted(w[:] for w in words))
    # parameter bounds
    for i in (None, 0, 1, 2, -1, -2, 5, -9):
        for j in (None, 0, 1, 3, -1, -2, 9, -9):
            got = select(p.name[i:j] for p in P).order_by(1)[:]
            check('s[%r:%r]' % (i, j), got, sorted(w[i:j] for w in words))
    # expression as stop with start 0
    check('s[0:p.id]', select(p.name[0:p.id] for p in P).order_by(1)[:], sorted(w[0:k] for k, w in enumerate(words, 1)))
for b in bad[:12]: print('MISMATCH', b)
assert not bad, '%d mismatches' % len(bad)
print('PASS')
