"""C29: a path step that does not apply to a document means "missing", not "abort the query".

`'d' in d.data['c']` is evaluated by py_json_contains -> _traverse.  For a row whose document is a list, the step 'c' raised TypeError
(list indices must be integers), which was not caught: the whole query failed with "user-defined function raised exception", although the
sibling `d.data['c']['d'] == 1` (json_extract) simply yields NULL for that row.  Fixed: _traverse treats TypeError like KeyError/IndexError.

Run: PYTHONPATH=/repo /venv/bin/python demos/C29_key_applied_to_a_list_document.py   (exit 0 = property holds)"""
from pony.orm import *
db = Database('sqlite', ':memory:')
class D(db.Entity):
    data = Required(Json)
db.generate_mapping(create_tables=True)
with db_session:
    D(data={'c': {'d': 1}}); D(data=[1, 2]); D(data={'c': [5]}); D(data={'x': 1})
rc = 0
with db_session:
    try:
        got = sorted(select(d.id for d in D if 'd' in d.data['c']))
        print("'d' in d.data['c'] ->", got)
        if got != [1]: rc = 1
    except Exception as e:
        print('query failed:', type(e).__name__, e); rc = 1
    try:
        got = sorted(select(d.id for d in D if d.data['c']['d'] == 1))
        print("d.data['c']['d'] == 1 ->", got)
        if got != [1]: rc = 1
    except Exception as e:
        print('query failed:', type(e).__name__, e); rc = 1
print('PASS' if rc == 0 else 'FAIL'); raise SystemExit(rc)
