"""C36 (KNOWN, not repaired): fork while a session has an open write transaction; the child leaves the inherited session.

The pool's pid comparison (Pool.connect) protects *new* sessions in the child.  A session that is open at the moment of the fork, however,
exists in both processes and holds the connection handle itself (SessionCache.connection); nothing compares the process that opened that
handle with os.getpid().  When the child leaves the inherited session -- rollback(), or simply the end of the `with db_session` block -- pony
issues ROLLBACK on the parent's connection.  With a file-backed SQLite database the child's rollback releases the file locks the parent's
transaction holds (POSIX locks are per process, the handle is a copy), and the parent's commit then fails with
`CommitException: OperationalError: disk I/O error`.  With a network driver the ROLLBACK would be written on the parent's socket.
A repair has to decide what an inherited session is allowed to do in the child (detach silently on rollback/exit? raise on a statement?) at
every place SessionCache hands its handle to the provider (close, commit, prepare_connection_for_query_execution, reconnect) -- a design
decision rather than a small patch, so it is recorded, not fixed.

Run: PYTHONPATH=/repo /venv/bin/python demos/C36_fork_inside_open_transaction_KNOWN.py   (exit 1 while the defect is present)"""
import os, sys, tempfile
from pony.orm import *
fn = tempfile.mktemp(suffix='.sqlite')
db = Database('sqlite', fn, create_db=True)
class Item(db.Entity):
    n = Required(int)
db.generate_mapping(create_tables=True)
with db_session:
    Item(n=1)
rc = 0
try:
    with db_session:
        Item(n=2); flush()                      # open write transaction in the parent
        pid = os.fork()
        if pid == 0:
            try: rollback()                     # the child leaves the session it inherited
            finally: os._exit(0)
        os.waitpid(pid, 0)
        Item(n=3)
    print('parent committed')
except Exception as e:
    print('parent failed:', type(e).__name__, e); rc = 1
finally:
    try: os.unlink(fn)
    except OSError: pass
print('PASS' if rc == 0 else 'FAIL: the child issued ROLLBACK on the connection its parent opened'); sys.exit(rc)
