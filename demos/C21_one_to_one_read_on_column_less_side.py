"""C21: a read of the column-less side of a one-to-one link is an observation.

Person.passport has no column (the link is stored in passport.person).  Before the fix Attribute.__get__ recorded the read in bit 0
of the person (that is: nowhere), so after another session moved the passport to somebody else and the passport row was loaded again,
`person.passport` silently changed from Passport[1] to None.  Fixed: the read is recorded on the partner's column, as Set does for the
items of a collection; the reload now raises UnrepeatableReadError.

Run: PYTHONPATH=/repo /venv/bin/python demos/C21_one_to_one_read_on_column_less_side.py   (exit 0 = property holds)"""
import os, tempfile, threading
from pony.orm import *
fn = tempfile.mktemp(suffix='.sqlite')
db = Database('sqlite', fn, create_db=True)
class Person(db.Entity):
    name = Required(str)
    passport = Optional('Passport')
class Passport(db.Entity):
    code = Required(str)
    person = Optional(Person)
db.generate_mapping(create_tables=True)
with db_session:
    p1 = Person(name='a'); p2 = Person(name='b'); Passport(code='x', person=p1)
def other():
    with db_session:
        Passport[1].person = Person[2]
rc = 0
with db_session:
    pp0 = select(x for x in Passport if x.code == 'x').first()   # passport row cached, its `person` attribute never read by the program
    p = Person[1]
    first = p.passport
    print('first read :', first)
    t = threading.Thread(target=other); t.start(); t.join()
    try:
        select(pp for pp in Passport)[:]                          # the row is loaded again
        second = p.passport
        print('second read:', second)
        if second is not first:
            print('VIOLATED: p.passport silently changed from %r to %r' % (first, second)); rc = 1
    except UnrepeatableReadError as e:
        print('loud:', e)
os.unlink(fn)
print('PASS' if rc == 0 else 'FAIL')
raise SystemExit(rc)
