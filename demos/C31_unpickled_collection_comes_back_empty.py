"""C31: a pickled collection comes back with its items (repaired by pony commit 8e5eb38).

SetInstance.__reduce__ pickles (owner, attribute name, copy of the items); unpickle_setwrapper(obj, attrname, items) never looked at `items`:
it marked the owner's collection as fully loaded -- with whatever the new session already knew of it, i.e. nothing.  The unpickled collection
was empty, and worse, the session now believed that the owner's collection was empty: post.tags, len(), count() and `in` all answered from that
poisoned state without asking the database.

Run: PYTHONPATH=/repo /venv/bin/python demos/C31_unpickled_collection_comes_back_empty.py   (exit 1 on the tree before the fix)"""
import pickle, sys
from pony.orm import *
db = Database('sqlite', ':memory:')
class Tag(db.Entity):
    name = Required(str); posts = Set('Post')
class Author(db.Entity):
    name = Required(str); posts = Set('Post')
class Post(db.Entity):
    title = Required(str); tags = Set(Tag); author = Required(Author)
db.generate_mapping(create_tables=True)
with db_session:
    a = Author(name='ann'); t1, t2 = Tag(name='a'), Tag(name='b')
    Post(title='p', tags=[t1, t2], author=a); Post(title='q', tags=[t1], author=a)
with db_session:
    p = Post[1]; a = Author[1]
    blobs = pickle.dumps(p.tags), pickle.dumps(a.posts)
ok = True
with db_session:
    tags = pickle.loads(blobs[0]); posts = pickle.loads(blobs[1])
    got = sorted(t.name for t in tags), sorted(x.title for x in posts)
    print('unpickled collections:', got)
    ok = ok and got == (['a', 'b'], ['p', 'q'])
    p = Post[1]
    seen = sorted(t.name for t in p.tags), len(p.tags), p.tags.count(), Tag[1] in p.tags
    print('the owner in this session:', seen)
    ok = ok and seen == (['a', 'b'], 2, 2, True)
    ok = ok and sorted(x.title for x in Tag[1].posts) == ['p', 'q']          # the other side of the many-to-many agrees
print('PASS' if ok else 'FAIL: the unpickled collection lost its items (and the session believes the collection is empty)'); sys.exit(0 if ok else 1)
