from pony.orm import *
db = Database('sqlite', ':memory:')
class P(db.Entity):
    data = Required(Json)
db.generate_mapping(create_tables=True)
docs = {1: {'x': 0}, 2: {'x': 0.0}, 3: {'x': 1.5}, 4: {'x': ''}, 5: {'x': []}, 6: {'x': None}, 7: {'x': False}, 8: {'x': -0.0}}
with db_session:
    for k, v in docs.items(): P(id=k, data=v)
with db_session:
    got = sorted(select(p.id for p in P if p.data['x'])[:])
    want = sorted(k for k, v in docs.items() if v.get('x'))
    print(got, want)
    assert got == want, 'query truthiness %r differs from Python %r' % (got, want)
print('PASS')
