"""C15: a db_session(ddl=True) that commits in the middle left PRAGMA foreign_keys off on the shared in-memory connection: the second
transaction recorded the already-disabled state as the one to restore.  Afterwards a bulk delete of parents left dangling children.
Run: PYTHONPATH=/repo /venv/bin/python demos/C15_ddl_session_leaves_foreign_keys_off.py (exit 0 = enforcement is restored)"""
results = []
import os, tempfile
from pony.orm import *
for target in (':memory:', os.path.join(tempfile.mkdtemp(), 'x.sqlite')):
    db=Database('sqlite', target, create_db=True)
    class P(db.Entity):
        cs=Set('C')
    class C(db.Entity):
        p=Required(P)
    db.generate_mapping(create_tables=True)
    with db_session:
        p=P(id=1); C(id=1,p=p)
    with db_session(ddl=True):
        db.execute('create table if not exists t1 (a int)')
        commit()
        db.execute('create table if not exists t2 (a int)')
    with db_session:
        fk = db.execute('pragma foreign_keys').fetchone()[0]
        n = P.select().delete(bulk=True)
    with db_session:
        results.append((fk, db.select('select id, p from C')))
        print(target[:8], 'foreign_keys =', fk, ' children left after bulk delete of parents:', db.select('select id, p from C'))
assert all(fk == 1 and not left for fk, left in results), 'foreign-key enforcement stayed off after the ddl session: %r' % results
print('PASS')
