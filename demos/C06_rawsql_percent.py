"""FIXED (219cef2) -- (builder run with a mock format-style provider; no PostgreSQL/MySQL driver in the sandbox):
SQLBuilder.RAWSQL emits the text of raw_sql() fragments without doubling '%', although the statement is later passed to a
format/pyformat driver together with bound parameters (the driver evaluates `sql % args`).  Sibling sites double it
(Value.quote_str, SQLBuilder.MOD, adapt_sql)."""
import types
from pony.orm.sqlbuilding import SQLBuilder
prov = types.SimpleNamespace(paramstyle='format', quote_name=lambda n: '"%s"' % n)
ast = ['SELECT', ['ALL', ['COLUMN', None, 'id']], ['FROM', [None, 'TABLE', 't']],
       ['WHERE', ['EQ', ['RAWSQL', "price % 10"], ['PARAM', (0, None, None)]], ['EQ', ['MOD', ['COLUMN', None, 'a'], ['VALUE', 3]], ['VALUE', 1]]]]
b = SQLBuilder(prov, ast)
print(b.sql)
args = b.adapter([7])
try: final = b.sql % args                    # what a format-style DB-API driver does with the statement and its arguments
except (TypeError, ValueError) as e: raise AssertionError('driver-side formatting of the generated statement fails: %s: %s' % (type(e).__name__, e))
assert 'price % 10' in final, final
print('PASS')
