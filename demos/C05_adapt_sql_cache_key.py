"""adapt_sql caches under the %-doubled text for format-style providers: the statement whose text equals the doubled
form of an earlier statement is served the earlier statement's adaptation."""
from pony.orm.core import adapt_sql, adapted_sql_cache
adapted_sql_cache.clear()
a1 = adapt_sql("select '%' || $x", 'format')[0]        # adapted: select '%%' || %s
a2 = adapt_sql("select '%%' || $x", 'format')[0]       # a different statement; must be adapted to: select '%%%%' || %s
print(a1); print(a2)
assert a2 == "select '%%%%' || %s", 'second statement was served the cached adaptation of the first: %r' % a2
print('PASS')
