"""C10: collection.count() after a flush.

Part 1 (fixed): for a many-to-many relation _calc_modified_m2m collected the link rows from one side and skipped the other side completely, so the
second side kept its SetData.added after the rows were written; count() = SELECT COUNT(*) + len(added) then counted them twice:
    s.courses.add(c2); flush(); s.courses.count()  ->  3, while len(s.courses) == 2.
Part 2 (KNOWN, not repaired): a single-object flush -- child.flush() -- inserts the child row but leaves the child in parent.children.added (the pending
marks are only settled by a full SessionCache.flush); parent.children.count() then gives 2 for one child.  A repair has to settle exactly the marks that the
written object accounts for (one-to-many only, other pending children must stay pending), which is more than a small patch.

Run: PYTHONPATH=/repo /venv/bin/python demos/C10_count_after_flush_counts_written_links_twice.py   (exit 0 only when both parts hold)"""
from pony.orm import *
db = Database('sqlite', ':memory:')
class Student(db.Entity):
    courses = Set('Course')
class Course(db.Entity):
    students = Set(Student)
class Parent(db.Entity):
    children = Set('Child')
class Child(db.Entity):
    parent = Required(Parent)
db.generate_mapping(create_tables=True)
with db_session:
    s = Student(); c1 = Course(); c2 = Course(); s.courses.add(c1); Parent()
part1 = part2 = True
with db_session:
    s = Student[1]; s.courses.add(Course[2]); flush()
    n, m = s.courses.count(), len(s.courses)
    print('part 1  Student.courses after add + flush():        count() = %d, len() = %d' % (n, m))
    part1 = n == m
    rollback()
with db_session:
    p = Parent[1]; ch = Child(parent=p); ch.flush()
    n, m = p.children.count(), len(p.children)
    print('part 2  Parent.children after child.flush() [KNOWN]: count() = %d, len() = %d' % (n, m))
    part2 = n == m
    rollback()
print('part 1 (fixed):', 'PASS' if part1 else 'FAIL', '  part 2 (known finding):', 'PASS' if part2 else 'FAIL')
raise SystemExit(0 if part1 and part2 else (1 if not part1 else 2))
