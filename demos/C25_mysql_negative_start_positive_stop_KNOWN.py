"""C25 (KNOWN, not repaired): s[-3:7] on the MySQL / generic code path.

For a negative constant start the generic SQLBuilder.STRING_SLICE passes the negative number itself as SUBSTR's position (MySQL and Oracle
count a negative position from the end) -- but then uses that *relative* position as if it were the absolute one when it computes the length for
a non-negative stop: length = (stop + 1) - position.  For s = 'abcdefgh', s[-3:7] is 'fg'; the generated SQL is substr(s, -3, 11), which MySQL
evaluates to 'fgh'.  The PostgreSQL branch computes an absolute position (length(s) - 2) and is right; SQLite does not use this code.
No MySQL server is available: the demo renders the SQL with pony's own builder and evaluates the one SUBSTR call with the semantics MySQL
documents (negative pos = from the end; pos 0 or len < 1 = empty string).  A repair has to bring LENGTH(s) into the non-PostgreSQL branches and
needs a MySQL/Oracle server to validate the corner cases (position <= 0), so it is recorded, not fixed.

Run: PYTHONPATH=/repo /venv/bin/python demos/C25_mysql_negative_start_positive_stop_KNOWN.py   (exit 1 while the defect is present)"""
import re
from pony.orm.sqlbuilding import SQLBuilder
class Provider(object):
    paramstyle = 'qmark'
    def quote_name(self, name): return '"%s"' % name if isinstance(name, str) else '.'.join('"%s"' % n for n in name)
def mysql_substr(s, pos, length):
    if pos == 0 or length < 1: return ''
    start = pos - 1 if pos > 0 else len(s) + pos
    if start < 0: return ''
    return s[start:start + length]
S = 'abcdefgh'
rc = 0
for start, stop in ((-3, 7), (-3, 8), (-5, 4), (-8, 3), (-2, 1)):
    sql = SQLBuilder(Provider(), ['STRING_SLICE', ['COLUMN', 't', 's'], ['VALUE', start], ['VALUE', stop]]).sql
    m = re.fullmatch(r'substr\("t"\."s", (-?\d+), (?:greatest\()?\(?(-?\d+) - (-?\d+)\)?(?:, 0\))?\)', sql) or re.fullmatch(r'substr\("t"\."s", (-?\d+), (-?\d+)()\)', sql)
    assert m, sql
    pos = int(m.group(1)); length = int(m.group(2)) - int(m.group(3)) if m.group(3) else int(m.group(2))
    got, want = mysql_substr(S, pos, max(length, 0)), S[start:stop]
    print('s[%d:%d]  %-50s -> %r   Python: %r%s' % (start, stop, sql, got, want, '' if got == want else '   <-- differs'))
    if got != want: rc = 1
print('PASS' if rc == 0 else 'FAIL (known finding)')
raise SystemExit(rc)
