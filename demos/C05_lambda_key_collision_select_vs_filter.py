"""C05: the same lambda object used once through Entity.select(lambda) and once through Query.filter(lambda): both filed their
(differently shaped) syntax tree in extractors_cache under id(lambda.__code__); whichever came second crashed (AttributeError /
ExprEvalError) although it works on a cold cache.  Run: PYTHONPATH=/repo /venv/bin/python demos/C05_lambda_key_collision_select_vs_filter.py"""
import io, contextlib
buf = io.StringIO()
with contextlib.redirect_stdout(buf):
    from pony.orm import *
    db=Database('sqlite',':memory:')
    class P(db.Entity):
        n=Required(int)
    db.generate_mapping(create_tables=True)
    with db_session:
        P(n=1); P(n=5)
    lam = lambda p: p.n > 2
    with db_session:
        print('select first:', [p.n for p in P.select(lam)])
    lam2 = lambda p: p.n > 2
    with db_session:
        print('filter first:', [p.n for p in P.select().filter(lam2)])
        try: print('then select:', [p.n for p in P.select(lam2)])
        except Exception as e: print('then select: EXC', type(e).__name__, e)
    lam3 = lambda p: p.n > 2
    with db_session:
        print('select first:', [p.n for p in P.select(lam3)])
        try: print('then filter:', [p.n for p in P.select().filter(lam3)])
        except Exception as e: print('then filter: EXC', type(e).__name__, e)
        try: print('then get:', P.get(lam3))
        except Exception as e: print('then get: EXC', type(e).__name__, e)
        try: print('then exists:', P.exists(lam3))
        except Exception as e: print('then exists: EXC', type(e).__name__, e)
out = buf.getvalue(); print(out)
assert 'EXC' not in out, 'a warm cache made a working call fail'
print('PASS')
