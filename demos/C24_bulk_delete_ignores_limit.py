from pony.orm import *
db = Database('sqlite', ':memory:')
class P(db.Entity):
    v = Required(int)
db.generate_mapping(create_tables=True)
with db_session:
    for i in range(5): P(v=i)
with db_session:
    q = select(p for p in P).order_by(P.v)
    inner = q.limit(2)
    n = select(p for p in inner).delete(bulk=True)
    left = select(p.v for p in P).order_by(1)[:]
    print('deleted', n, 'left', left)
    assert left == [2, 3, 4], left
    rollback()
with db_session:
    inner = select(p for p in P).order_by(desc(P.v)).limit(2, offset=1)
    n = select(p for p in inner).delete(bulk=True)
    left = select(p.v for p in P).order_by(1)[:]
    print('deleted', n, 'left', left)
    assert left == [0, 1, 4], left
print('PASS')
