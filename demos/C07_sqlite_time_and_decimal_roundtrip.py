from pony.orm import *
import datetime
from decimal import Decimal
db = Database('sqlite', ':memory:')
class T(db.Entity):
    t = Optional(datetime.time)
    d = Optional(Decimal, 10, 2)
db.generate_mapping(create_tables=True)
with db_session:
    x = T(id=1, t=datetime.time(1, 2, 3), d=Decimal('1.005'))
    flush()
    seen = (x.t, x.d)
with db_session:
    y = T[1]
    got = (y.t, y.d)
print(seen, got)
assert got[0] == seen[0], 'time: wrote %r, read %r' % (seen[0], got[0])
assert got[1] == seen[1], 'Decimal: session saw %r after flush, fresh session reads %r' % (seen[1], got[1])
print('PASS')
