from pony.orm import *
db = Database('sqlite', ':memory:')
class P(db.Entity):
    a = Optional(int, min=0)
    b = Optional(float, min=0)
    c = Optional(int, max=0)
    d = Optional(float, max=0)
db.generate_mapping(create_tables=True)
bad = []
with db_session:
    for kw in (dict(a=-5), dict(b=-5.0), dict(c=5), dict(d=5.0)):
        try: P(**kw)
        except ValueError: pass
        else: bad.append(kw)
    rollback()
print('accepted out-of-range:', bad)
assert not bad
