"""C04: max((x for x in T), default=0) as an outer-scope expression.

PythonTranslator.postCall rendered a call whose only positional argument is a generator expression as f(<generator>), reusing the generator's
parentheses -- and returned right there, dropping keyword arguments: `max((x for x in T), default=0)` was regenerated as `max(x for x in T)`.
(Latent as far as query results go: a generator expression over a plain list inside a query is rejected by the translator before any outer-scope
evaluation, so this showed at the level of ast2src only.)  Fixed: the short form is used only when there are no keyword arguments.

Run: PYTHONPATH=/repo /venv/bin/python demos/C04_generator_argument_with_keywords.py   (exit 0 = property holds)"""
import ast
from pony.orm.asttranslation import ast2src
rc = 0
for src in ("max((x for x in T), default=0)", "sorted((x for x in T), key=f)", "sum((x for x in T), 10)", "any(x for x in T)"):
    out = ast2src(ast.parse(src, mode='eval').body)
    same = ast.dump(ast.parse(out, mode='eval')) == ast.dump(ast.parse(src, mode='eval'))
    print('%-36s -> %-36s %s' % (src, out, 'ok' if same else 'DIFFERENT EXPRESSION'))
    if not same: rc = 1
print('PASS' if rc == 0 else 'FAIL'); raise SystemExit(rc)
