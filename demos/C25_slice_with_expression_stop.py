from pony.orm import *
db = Database('sqlite', ':memory:')
class P(db.Entity):
    name = Required(str)
    n = Required(int)
db.generate_mapping(create_tables=True)
words = ['abcdefgh', 'xyz12', 'hello']
with db_session:
    for i, w in enumerate(words, 1): P(name=w, n=i)
with db_session:
    got = select(p.name[0:p.n] for p in P).order_by(1)[:]
    want = sorted(w[0:i] for i, w in enumerate(words, 1))
    print(got, want)
    assert got == want, 's[0:expr] returned %r, Python gives %r' % (got, want)
    got = select(p.name[:p.n] for p in P).order_by(1)[:]
    assert got == want, (got, want)
print('PASS')
