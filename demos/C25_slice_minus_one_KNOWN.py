"""KNOWN FINDING (not repaired: pony's own test_declarative_strings.test_slice_13 pins this behaviour).
An explicit stop of -1 with start 0/omitted is taken for an omitted stop: s[:-1] returns the whole string."""
from pony.orm import *
db = Database('sqlite', ':memory:')
class P(db.Entity):
    name = Required(str)
db.generate_mapping(create_tables=True)
with db_session:
    P(name='Ann')
with db_session:
    y = -1
    r = [select(p.name[:-1] for p in P).first(), select(p.name[0:-1] for p in P).first(), select(p.name[0:y] for p in P).first(),
         select(p.name[1:-1] for p in P).first()]
print(r)
assert r == ['An', 'An', 'An', 'n'], 'Python gives An, An, An, n'
print('PASS')
