"""C04: an outer-scope subscript with a one-element tuple key, d[1,], was regenerated as d[1]: a different key.
Run: PYTHONPATH=/repo /venv/bin/python demos/C04_one_element_tuple_subscript.py   (exit 0 = behaves like Python)"""
import ast
from pony.orm import *
from pony.orm.asttranslation import ast2src

src = 'd[1,]'
out = ast2src(ast.parse(src, mode='eval').body)
print('%s  ->  %s' % (src, out))
d = {(1,): 5, 1: 1}
db = Database('sqlite', ':memory:')
class P(db.Entity):
    n = Required(int)
db.generate_mapping(create_tables=True)
with db_session:
    P(n=1); P(n=5)
    x = 1
    got = select(p.n for p in P if p.n == d[x,])[:]
    want = [p.n for p in P.select() if p.n == d[x,]]
    print('query:', got, ' python:', want)
assert got == want, 'the query compared with d[x] (= %r), Python compares with d[x,] (= %r)' % (d[1], d[1,])
assert eval(out) == eval(src), 'regenerated source %r evaluates to %r, the original %r to %r' % (out, eval(out), src, eval(src))
print('PASS')
