"""C21: len(group.students) observes the whole collection.

SetInstance.__len__ loaded the collection completely and returned its size without recording the read of the items (Set.copy, which
is behind iteration / set() / ==, does).  After another transaction moved a student to a different group and the student row was
loaded again, len() of the same collection silently went from 2 to 1.  Fixed: __len__ goes through copy(); the reload now raises
UnrepeatableReadError.

Run: PYTHONPATH=/repo /venv/bin/python demos/C21_len_of_collection_is_an_observation.py   (exit 0 = property holds)"""
import os, tempfile, threading
from pony.orm import *
fn = tempfile.mktemp(suffix='.sqlite')
db = Database('sqlite', fn, create_db=True)
class Group(db.Entity):
    students = Set('Student')
class Student(db.Entity):
    group = Required(Group)
db.generate_mapping(create_tables=True)
with db_session:
    g1 = Group(); g2 = Group(); Student(group=g1); Student(group=g1)
def other():
    with db_session:
        Student[2].group = Group[2]
rc = 0
with db_session:
    g = Group[1]
    first = len(g.students)
    print('first  len:', first)
    t = threading.Thread(target=other); t.start(); t.join()
    try:
        select(s for s in Student)[:]
        second = len(g.students)
        print('second len:', second)
        if second != first: rc = 1; print('VIOLATED: the observed collection silently shrank from %d to %d items' % (first, second))
    except UnrepeatableReadError as e: print('loud:', e)
os.unlink(fn)
print('PASS' if rc == 0 else 'FAIL')
raise SystemExit(rc)
