"""C25 / C01: a string slice with a parameter bound in a query that Pony translates a second time.

When a later filter makes a query "optimizable" (an aggregate over a collection: count(g.students) > 1), Query._process_lambda translates the
original query and all remembered filters again -- and passed vars=None to that second translation.  A slice bound given as a parameter is folded into
the SQL as a constant taken from vars, so the valid query

    select(g for g in Group if g.name[:n] == 'al').filter(lambda g: count(g.students) > 1)

raised TypeError: 'NoneType' object is not subscriptable (the same for getattr(g, name) and for inlined functions).  Fixed: the re-translation
receives the current values.

Run: PYTHONPATH=/repo /venv/bin/python demos/C25_slice_parameter_in_a_query_that_is_retranslated.py   (exit 0 = property holds)"""
from pony.orm import *
db = Database('sqlite', ':memory:')
class Group(db.Entity):
    name = Required(str)
    students = Set('Student')
class Student(db.Entity):
    name = Required(str)
    group = Required(Group)
db.generate_mapping(create_tables=True)
with db_session:
    g1 = Group(name='alpha'); g2 = Group(name='beta'); g3 = Group(name='alto')
    for g, k in ((g1, 2), (g2, 3), (g3, 2)):
        for i in range(k): Student(name='s', group=g)
rc = 0
def run(n, prefix):
    q = select(g for g in Group if g.name[:n] == prefix).filter(lambda g: count(g.students) > 1)
    return sorted(g.name for g in q)
with db_session:
    rows = [(g.name, len(g.students)) for g in Group.select()]
    for n, prefix in ((2, 'al'), (3, 'alp'), (1, 'b'), (2, 'al')):
        want = sorted(name for name, k in rows if name[:n] == prefix and k > 1)
        try: got = run(n, prefix)
        except Exception as e: got = '%s: %s' % (type(e).__name__, e)
        print('name[:%d] == %r and count(students) > 1 -> %s   Python: %s' % (n, prefix, got, want))
        if got != want: rc = 1
print('PASS' if rc == 0 else 'FAIL'); raise SystemExit(rc)
