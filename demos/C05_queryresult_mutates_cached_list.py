from pony.orm import *
db = Database('sqlite', ':memory:')
class P(db.Entity):
    name = Required(str)
db.generate_mapping(create_tables=True)
with db_session:
    for n in 'abc': P(name=n)
def q(): return select(p.name for p in P).order_by(1)
with db_session:
    r1 = q()[:]
    print(list(r1))
    r1.reverse()
    r2 = q()[:]
    print(list(r2))
    assert list(r2) == ['a','b','c'], list(r2)
print('PASS')
