"""C25: s[3:1] (constant bounds, stop before start) is the empty string in Python.

SQLBuilder.STRING_SLICE computed the length of a constant/constant slice of equal signs as `stop - start` without clamping, so the generated
SQL for s[3:1] was substr(s, 4, -2).  MySQL answers '' for a negative length, PostgreSQL refuses it ("negative substring length not allowed"),
so the query failed there instead of returning ''.  (SQLite does not use this code path: it calls py_string_slice.)  The other two sign
combinations were already wrapped in MAX(.., 0).  Fixed: the constant length is clamped with max(.., 0).
No PostgreSQL server is available here: the demo renders the SQL with the generic builder under the PostgreSQL dialect name and checks the length
argument; everything it runs is pony's own SQLBuilder.

Run: PYTHONPATH=/repo /venv/bin/python demos/C25_reversed_constant_slice_negative_length.py   (exit 0 = no negative length is generated)"""
from pony.orm.sqlbuilding import SQLBuilder
class Provider(object):
    paramstyle = 'qmark'
    def quote_name(self, name): return '"%s"' % name if isinstance(name, str) else '.'.join('"%s"' % n for n in name)
class PGLike(SQLBuilder):
    dialect = 'PostgreSQL'
rc = 0
for start, stop in ((3, 1), (5, 0), (-1, -3), (-2, -5), (1, 3), (-3, -1)):
    ast_ = ['STRING_SLICE', ['COLUMN', 't', 's'], ['VALUE', start], ['VALUE', stop]]
    for cls in (PGLike, SQLBuilder):
        sql = cls(Provider(), ast_).sql
        length = int(sql.rstrip(')').rsplit(',', 1)[1])
        want = len('abcdefgh'[start:stop])
        flag = '' if length >= 0 else '   <-- negative length'
        print('%-10s s[%d:%d] -> %s%s' % (cls.dialect or 'generic', start, stop, sql, flag))
        if length < 0: rc = 1
        if start * stop > 0 and length != want: rc = 1; print('   expected length', want)
print('PASS' if rc == 0 else 'FAIL')
raise SystemExit(rc)
