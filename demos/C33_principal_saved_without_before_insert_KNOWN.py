"""KNOWN FINDING: obj.flush() saves a new principal (through _save_principal_objects_) without calling its before_insert hook."""
from pony.orm import *
db = Database('sqlite', ':memory:')
log = []
class G(db.Entity):
    items = Set('I')
    def before_insert(self): log.append('before G')
    def after_insert(self): log.append('after G')
class I(db.Entity):
    g = Required(G)
    def before_insert(self): log.append('before I')
    def after_insert(self): log.append('after I')
db.generate_mapping(create_tables=True)
with db_session:
    i = I(g=G())
    i.flush()
print(log)
assert log.count('before G') == 1, 'G was inserted without its before_insert hook: %s' % log
print('PASS')
