from pony.orm import *
db = Database('sqlite', ':memory:')
class G(db.Entity):
    items = Set('I')
class I(db.Entity):
    g = Required(G)
db.generate_mapping(create_tables=True)
with db_session:
    g = G(id=1); I(g=g); I(g=g)
with db_session:
    g = G[1]            # collection not loaded
# session is over; a *new* session is active while the stale object is used
with db_session:
    I.select().delete(bulk=True)     # the new session's view: no items
    try: r = g.items.is_empty()
    except DatabaseSessionIsOver: print('raises DatabaseSessionIsOver: PASS')
    else: raise AssertionError('is_empty() on object of finished session answered %r instead of raising' % r)
    rollback()
