"""PostgreSQL dialect (SQL generation only; the psycopg2 driver is stubbed, no server in the sandbox):
`not <nullable boolean expression>` must be TRUE for a missing value, like Python's `not None`.
NumericMixin.negate built NOT COALESCE(x, true), which is FALSE for NULL; its siblings build COALESCE(x, 0) = 0 / x = 0 OR x IS NULL."""
import sys, types
pg = types.ModuleType('psycopg2'); ext = types.ModuleType('psycopg2.extensions'); extras = types.ModuleType('psycopg2.extras')
pg.extensions, pg.extras = ext, extras
extras.register_uuid = extras.register_default_json = extras.register_default_jsonb = lambda *a, **k: None
ext.ISOLATION_LEVEL_AUTOCOMMIT = 0
for name in ('Warning', 'Error', 'InterfaceError', 'DatabaseError', 'DataError', 'OperationalError', 'IntegrityError', 'InternalError', 'ProgrammingError', 'NotSupportedError'):
    setattr(pg, name, type(name, (Exception,), {}))
for n, m in (('psycopg2', pg), ('psycopg2.extensions', ext), ('psycopg2.extras', extras)): sys.modules[n] = m
from pony.orm import *
from pony.orm.tests.testutils import TestPool, TestConnection
from pony.orm.dbproviders.postgres import PGProvider
class FakePGProvider(PGProvider):
    server_version = 140000
    def inspect_connection(provider, connection): pass
    def set_transaction_mode(provider, connection, cache): pass
    def release(provider, connection, cache=None): pass
class DB(Database):
    def _exec_sql(database, sql, arguments=None, returning_id=False, start_transaction=False):
        database.sql = sql; raise KeyboardInterrupt
db = DB()
db.bind(FakePGProvider, pony_pool_mockup=TestPool(db))
class P(db.Entity):
    a = Optional(bool)
    b = Optional(bool)
db.generate_mapping(check_tables=False)
with db_session:
    try: select(p for p in P if not max(p.a, p.b))[:]
    except KeyboardInterrupt: pass
sql = db.sql
print(sql)
where = sql.split('WHERE', 1)[1]
import re
m = re.search(r'NOT\s*\(?\s*coalesce\((.*),\s*(true|false)\)', where, re.I | re.S)
assert m is not None, 'unexpected SQL shape'
# three-valued: NOT COALESCE(NULL, true) = FALSE (row dropped);  NOT COALESCE(NULL, false) = TRUE (row kept, like `not None`)
assert m.group(2).lower() == 'false', 'for a NULL operand the condition `%s` is FALSE: the row is not selected although `not None` is True' % m.group(0).replace('\n', ' ')
print('PASS')
