"""C13: a refused delete that had already cascaded into an object whose own nested change queued ANOTHER object: Entity._delete_ registered its undo
before the nested operations but queued itself after them, so the reversed replay popped the wrong object from the save queue: AssertionError
instead of ConstraintError, and a half-restored session whose commit then crashed.
Run: PYTHONPATH=/repo /venv/bin/python demos/C13_refused_cascade_undo_order.py  (exit 0 = the failed delete leaves the session as it was)"""
from pony.orm import *
db=Database('sqlite',':memory:')
class Group(db.Entity):
    name=Required(str)
    students=Set('Student', cascade_delete=True)
    rooms=Set('Room', cascade_delete=False)
class Student(db.Entity):
    name=Required(str)
    group=Required(Group)
    locker=Optional('Locker')
class Locker(db.Entity):
    n=Required(int)
    student=Optional(Student)
class Room(db.Entity):
    n=Required(int)
    group=Required(Group)
db.generate_mapping(create_tables=True)
with db_session:
    g=Group(name='g'); s=Student(name='s',group=g); Locker(n=1,student=s); Room(n=1,group=g)
with db_session:
    g=Group[1]; s=Student[1]; l=Locker[1]; r=Room[1]
    list(g.students); list(g.rooms)
    err = None
    try: g.delete()
    except Exception as e: err = e
    print(type(err).__name__, str(err)[:90])
    state = (g._status_, s._status_, l._status_, l.student, list(db._get_cache().objects_to_save))
    print(state)
    assert isinstance(err, ConstraintError), 'the refused delete raised %r instead of ConstraintError' % err
    assert state == ('loaded', 'loaded', 'loaded', s, []), 'the session is not as it was before the failed delete'
print('PASS')
