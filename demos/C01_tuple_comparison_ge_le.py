"""C01: tuple comparisons with >= / <= on dialects without row-value syntax (SQLite): (a, b) >= (x, y) was expanded to `a >= x OR a = x AND b >= y`
-- the first column must be compared strictly -- so (1, 1) >= (1, 2) was true.
Run: PYTHONPATH=/repo /venv/bin/python demos/C01_tuple_comparison_ge_le.py  (exit 0 = query agrees with Python)"""
from pony.orm import *
db = Database('sqlite', ':memory:')
class G(db.Entity):
    dept = Required(int); num = Required(int); sub = Required(int)
db.generate_mapping(create_tables=True)
rows = [(d, n, s) for d in (0, 1, 2) for n in (1, 2, 3) for s in (0, 1)]
with db_session:
    for d, n, s in rows: G(dept=d, num=n, sub=s)
bad = []
with db_session:
    for name, q, py in (
        ('(dept, num) >= (1, 2)', select((g.dept, g.num, g.sub) for g in G if (g.dept, g.num) >= (1, 2)), lambda r: (r[0], r[1]) >= (1, 2)),
        ('(dept, num) <= (1, 2)', select((g.dept, g.num, g.sub) for g in G if (g.dept, g.num) <= (1, 2)), lambda r: (r[0], r[1]) <= (1, 2)),
        ('(dept, num, sub) >= (1, 2, 1)', select((g.dept, g.num, g.sub) for g in G if (g.dept, g.num, g.sub) >= (1, 2, 1)), lambda r: r >= (1, 2, 1)),
        ('(dept, num, sub) <= (1, 2, 0)', select((g.dept, g.num, g.sub) for g in G if (g.dept, g.num, g.sub) <= (1, 2, 0)), lambda r: r <= (1, 2, 0)),
        ('(dept, num) > (1, 2)', select((g.dept, g.num, g.sub) for g in G if (g.dept, g.num) > (1, 2)), lambda r: (r[0], r[1]) > (1, 2)),
        ('(dept, num) < (1, 2)', select((g.dept, g.num, g.sub) for g in G if (g.dept, g.num) < (1, 2)), lambda r: (r[0], r[1]) < (1, 2)),
    ):
        got = sorted(q[:]); want = sorted(r for r in rows if py(r))
        print('%-32s %s' % (name, 'ok' if got == want else 'DIFFERENT: %d rows instead of %d' % (len(got), len(want))))
        if got != want: bad.append(name)
assert not bad, 'tuple comparisons that disagree with Python: %s' % bad
print('PASS')
