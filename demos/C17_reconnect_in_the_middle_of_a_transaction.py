"""C17: a connection failure in the middle of a transaction must not be papered over by a reconnect.

Database._exec_sql answers a failed statement with SessionCache.reconnect(e) when the provider says the error is a lost connection
(PGProvider / MySQLProvider / OraProvider.should_reconnect).  reconnect() dropped the connection -- provider.drop() resets
cache.in_transaction -- and then called connect(), whose guard `if cache.in_transaction: throw(ConnectionClosedError)` could therefore
never fire: the session silently continued on a fresh connection, everything written before the failure was lost, everything after it
was committed.  No PostgreSQL/MySQL server is available here, so the demo gives the SQLite provider *their* reconnect policy
(should_reconnect accepts an OperationalError) and injects one transient error at every statement index; all other code is pony's own.
Fixed: reconnect() remembers whether a transaction was open and raises ConnectionClosedError after dropping the connection.

Run: PYTHONPATH=/repo /venv/bin/python demos/C17_reconnect_in_the_middle_of_a_transaction.py   (exit 0 = all-or-nothing holds)
"""
import os, sqlite3, sys, tempfile

from pony.orm import Database, PrimaryKey, Required, db_session, flush


class Injector(object):
    armed = False      # count / inject only while the program under test is running
    fail_at = None     # index of the statement that fails (once)
    count = 0
    log = []

    @classmethod
    def reset(cls, fail_at=None):
        cls.armed, cls.fail_at, cls.count, cls.log = False, fail_at, 0, []

    @classmethod
    def before(cls, sql):
        if not cls.armed: return
        i = cls.count
        cls.count += 1
        if i == cls.fail_at:
            cls.log.append('%d: %s  <-- injected error' % (i, sql))
            raise sqlite3.OperationalError('disk I/O error')
        cls.log.append('%d: %s' % (i, sql))


class FaultyCursor(sqlite3.Cursor):
    def execute(self, sql, *args):
        Injector.before(sql)
        return sqlite3.Cursor.execute(self, sql, *args)
    def executemany(self, sql, *args):
        Injector.before(sql)
        return sqlite3.Cursor.executemany(self, sql, *args)


class FaultyConnection(sqlite3.Connection):
    def cursor(self, factory=FaultyCursor):
        return sqlite3.Connection.cursor(self, factory)
    def commit(self):
        Injector.before('COMMIT')
        return sqlite3.Connection.commit(self)


def make_db(filename):
    db = Database()

    class Account(db.Entity):
        id = PrimaryKey(int)
        owner = Required(str)
        balance = Required(int)

    class Audit(db.Entity):
        _table_ = 'audit'
        id = PrimaryKey(int, auto=True)
        note = Required(str)

    db.bind('sqlite', filename, create_db=True, factory=FaultyConnection)
    db.generate_mapping(create_tables=True)
    # the reconnect policy of the server-based providers: a connection-level OperationalError asks for a reconnect
    db.provider.should_reconnect = lambda exc: isinstance(exc, sqlite3.OperationalError)
    with db_session:
        Account(id=1, owner='alice', balance=100)
        Account(id=2, owner='bob', balance=100)
    return db, Account


def program(db, Account, session_kwargs):
    """Move 50 from account 1 to account 2 and write an audit row with a raw statement."""
    with db_session(**session_kwargs):
        a = Account[1]
        a.balance -= 50
        flush()
        db.execute("INSERT INTO audit (note) VALUES ('transfer 1 -> 2: 50')")
        b = Account[2]
        b.balance += 50


def snapshot(filename):
    con = sqlite3.connect(filename)
    try:
        accounts = con.execute('SELECT id, balance FROM Account ORDER BY id').fetchall()
        audit = con.execute('SELECT note FROM audit ORDER BY id').fetchall()
    finally:
        con.close()
    return accounts, audit


NONE = ([(1, 100), (2, 100)], [])
ALL = ([(1, 50), (2, 150)], [('transfer 1 -> 2: 50',)])


def run(session_kwargs, fail_at):
    tmpdir = tempfile.mkdtemp(prefix='c17_reconnect_')
    filename = os.path.join(tmpdir, 'test.sqlite')
    db, Account = make_db(filename)
    Injector.reset(fail_at)
    Injector.armed = True
    outcome = 'completed'
    try:
        program(db, Account, session_kwargs)
    except Exception as e:
        outcome = 'raised %s: %s' % (type(e).__name__, e)
    finally:
        Injector.armed = False
    count, log = Injector.count, list(Injector.log)
    db.disconnect()
    state = snapshot(filename)
    for name in os.listdir(tmpdir): os.remove(os.path.join(tmpdir, name))
    os.rmdir(tmpdir)
    return outcome, state, count, log


def main():
    violations = []
    for mode, kwargs in [('optimistic', {}), ('immediate', {'immediate': True}),
                         ('serializable', {'serializable': True})]:
        outcome, state, n, log = run(kwargs, None)
        assert outcome == 'completed' and state == ALL, (mode, outcome, state)
        for k in range(n):
            outcome, state, _, log = run(kwargs, k)
            verdict = 'all' if state == ALL else 'none' if state == NONE else 'PARTIAL'
            print('%-12s error at statement %d/%d: session %s -> database has %s'
                  % (mode, k, n, outcome, verdict))
            if verdict == 'PARTIAL':
                violations.append((mode, k, outcome, state, log))
    for mode, k, outcome, state, log in violations[:1]:  # details of the first one are enough
        print('\nVIOLATION in %s session, error injected at statement %d (%s)' % (mode, k, outcome))
        print('  statements:\n    ' + '\n    '.join(' '.join(line.split()) for line in log))
        print('  accounts = %r, audit = %r' % state)
        print('  expected either %r or %r' % (NONE, ALL))
    assert not violations, \
        '%d run(s) left a partially applied session in the database' % len(violations)
    print('PASS')


if __name__ == '__main__':
    main()
