"""C21: prefetch() must not change a many-to-many collection the session has already observed.

Set.prefetch_load_all queries the link table again even for collections that are fully loaded.  Items that had disappeared raised
'Phantom object ... disappeared', but items that had *appeared* (another transaction added a link) were merged silently: the same
`group.tags` first read as [1] and then as [1, 2].  The sibling Set.db_reverse_add refuses that with 'Phantom object ... appeared'.
Fixed: prefetch_load_all raises the same UnrepeatableReadError.

Run: PYTHONPATH=/repo /venv/bin/python demos/C21_prefetch_merges_phantom_into_observed_collection.py   (exit 0 = property holds)"""
import os, tempfile, threading
from pony.orm import *
fn = tempfile.mktemp(suffix='.sqlite')
db = Database('sqlite', fn, create_db=True)
class Group(db.Entity):
    tags = Set('Tag')
class Tag(db.Entity):
    groups = Set(Group)
db.generate_mapping(create_tables=True)
with db_session:
    g1 = Group(); t1 = Tag(); t2 = Tag(); g1.tags.add(t1)
def other():
    with db_session:
        Group[1].tags.add(Tag[2])
rc = 0
with db_session:
    g = Group[1]
    first = sorted(t.id for t in g.tags)
    print('first :', first)
    t = threading.Thread(target=other); t.start(); t.join()
    try:
        list(select(x for x in Group).prefetch(Group.tags))
        second = sorted(t.id for t in g.tags)
        print('second:', second)
        if second != first: rc = 1; print('VIOLATED: the observed collection silently changed from %s to %s' % (first, second))
    except UnrepeatableReadError as e: print('loud:', e)
os.unlink(fn)
print('PASS' if rc == 0 else 'FAIL')
raise SystemExit(rc)
