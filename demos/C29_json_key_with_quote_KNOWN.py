"""KNOWN FINDING: a JSON key containing a double quote cannot be addressed in a query on SQLite: eval_json_path writes
$."a\"b" but neither pony's own path reader (regex "([^"]*)") nor SQLite's json_extract accept an escaped quote in a label."""
from pony.orm import *
db = Database('sqlite', ':memory:')
class P(db.Entity):
    data = Required(Json)
db.generate_mapping(create_tables=True)
with db_session:
    P(id=8, data={'a"b': 1}); P(id=9, data={'a b': 1})
with db_session:
    got = select(p.id for p in P if p.data['a"b'] == 1)[:]
    print(list(got))
    assert list(got) == [8], 'the document has the key, Python finds it, the query does not: %r' % list(got)
print('PASS')
