"""C04: an f-string whose replacement field contains a string literal with a backslash escape (possible since Python 3.12).

    f"{u + '\\n'}"   was regenerated as   f"{u + '\\\\n'}"

postJoinedStr built the whole text between the quotes -- literal parts AND the source of the replacement fields -- and applied %r to it.  repr() is
right for the literal parts, but the field source is code whose string literals are escaped already; repr() doubled their backslashes, and the
recompiled expression appended a backslash and an 'n' instead of a newline: a query compared with the wrong string.  Fixed: only the literal
parts are escaped; the delimiter is one that the fields do not use.

Run: PYTHONPATH=/repo /venv/bin/python demos/C04_fstring_backslash_in_replacement_field.py   (exit 0 = property holds)"""
import ast
from pony.orm import *
from pony.orm.asttranslation import ast2src
rc = 0
u = 'x'; w = 5; d = {'k': 1}
for src in ("f\"{u + '\\n'}\"", 'f"a\\nb{u}"', "f'it\\'s {u!r:>{w}} {{x}}'", 'f"{d[\'k\']} and \\"q\\""', "f'\\u00e9{u}\\\\'"):
    out = ast2src(ast.parse(src, mode='eval').body)
    try: got = eval(out)
    except SyntaxError as e: got = 'SyntaxError: %s' % e
    ok = got == eval(src)
    print('%-32s -> %-34s %s' % (src, out, 'ok' if ok else 'DIFFERENT VALUE: %r instead of %r' % (got, eval(src))))
    if not ok: rc = 1
db = Database('sqlite', ':memory:')
class E(db.Entity):
    s = Required(str, autostrip=False)
db.generate_mapping(create_tables=True)
with db_session:
    E(s='x\n'); E(s='x\\n')
    got = select(e.id for e in E if e.s == f"{u + '\n'}")[:]
    print('select(e.id for e in E if e.s == f"{u + \'\\n\'}") ->', got, ' Python: [1]')
    if got != [1]: rc = 1
print('PASS' if rc == 0 else 'FAIL'); raise SystemExit(rc)
