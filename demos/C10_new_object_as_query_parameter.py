"""C10: an object created in the session (auto-generated primary key, not flushed yet) used as a query parameter: the arguments
were computed before the auto-flush, NULL was sent, and every form of query missed the rows referencing it.
Run: PYTHONPATH=/repo /venv/bin/python demos/C10_new_object_as_query_parameter.py  (exit 0 = reads see the session's own changes)"""
from pony.orm import *
db=Database('sqlite',':memory:')
class G(db.Entity):
    name=Required(str); students=Set('S')
class S(db.Entity):
    name=Required(str); group=Required(G)
db.generate_mapping(create_tables=True)
results = []
def t(label, f):
    with db_session:
        g=G(name='g'); s=S(name='s',group=g)
        r = f(g); print(label, r); results.append((label, r))
        rollback()
t('select gen   ', lambda g: select(x for x in S if x.group == g)[:])
t('select lambda', lambda g: S.select(lambda x: x.group == g)[:])
t('count        ', lambda g: select(x for x in S if x.group == g).count())
t('exists       ', lambda g: select(x for x in S if x.group == g).exists())
t('get kw       ', lambda g: S.get(group=g))
t('select kw    ', lambda g: S.select(group=g)[:])
t('exists kw    ', lambda g: S.exists(group=g))
t('in list      ', lambda g: select(x for x in S if x.group in [g])[:])
t('g.students sel', lambda g: g.students.select()[:])
t('g.students filter', lambda g: g.students.filter(lambda x: x.name=='s')[:])
t('bulk delete  ', lambda g: (select(x for x in S if x.group == g).delete(bulk=True), db.select('select count(*) from S')))
bad = [l for l, r in results if r in ([], 0, False, None) or (isinstance(r, tuple) and r[0] == 0)]
assert not bad, 'queries that did not see the object created in this session: %s' % bad
print('PASS')
