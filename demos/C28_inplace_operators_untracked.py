from pony.orm import *
db = Database('sqlite', ':memory:')
class P(db.Entity):
    data = Required(Json)
    arr = Optional(IntArray)
db.generate_mapping(create_tables=True)
with db_session:
    P(id=1, data={'k': [1], 'd': {'a': 1}}, arr=[1, 2])
with db_session:
    p = P[1]
    l = p.data['k']; l += [2]
    d = p.data['d']; d |= {'b': 2}
    a = p.arr; a *= 2
with db_session:
    p = P[1]
    got = (p.data['k'], p.data['d'], list(p.arr))
print(got)
assert got == ([1, 2], {'a': 1, 'b': 2}, [1, 2, 1, 2]), got
with db_session:
    p = P[1]
    a = p.arr
    try: a += ['x']
    except TypeError: pass
    else: raise AssertionError('array += accepted item of wrong type')
