"""Flask integration: teardown with an exception must roll back.  (flask itself is stubbed: only `request` is used.)"""
import sys, types
fl = types.ModuleType('flask'); fl.request = types.SimpleNamespace(); sys.modules['flask'] = fl
from pony.orm import *
import pony.flask as pf
db = Database('sqlite', ':memory:')
class P(db.Entity):
    name = Required(str)
db.generate_mapping(create_tables=True)
pf._enter_session()
P(name='from failed request')
pf._exit_session(ValueError('view raised'))
with db_session:
    n = P.select().count()
print('rows after failed request:', n)
assert n == 0, 'failed request was committed'
