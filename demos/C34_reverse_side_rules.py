"""has_perm(attribute): the reverse-side check iterates the attribute's own entity rules instead of the reverse entity's rules."""
from pony.orm import *
from pony.orm.core import has_perm, can_view
db = Database('sqlite', ':memory:')
class A(db.Entity):
    name = Required(str)
    b = Optional('B')
class B(db.Entity):
    a = Optional(A)
with db.set_perms_for(A):
    perm('view', group='g1').exclude(A.b)       # g1 may view A, but not the link A.b
with db.set_perms_for(B):
    perm('view', group='g2')                     # only g2 may view B (and B.a)
db.generate_mapping(create_tables=True)
@user_groups_getter(str)
def groups(u): return ['g1']
with db_session:
    r = dict(A_name=can_view('u', A.name), A_b=can_view('u', A.b), B_a=can_view('u', B.a))
    print(r)
    assert r['A_name'] is True and r['B_a'] is False
    assert r['A_b'] is False, 'A.b is excluded for g1 and the reverse side B.a is only granted to g2, yet A.b is viewable'
print('PASS')
