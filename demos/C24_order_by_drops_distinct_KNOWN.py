from pony.orm import *
db = Database('sqlite', ':memory:')
class P(db.Entity):
    tags = Set('T')
class T(db.Entity):
    name = Required(str)
    ps = Set(P)
db.generate_mapping(create_tables=True)
with db_session:
    t1 = T(name='t1'); t2 = T(name='t2')
    for i in range(3): P(tags=[t1] + ([t2] if i == 0 else []))
with db_session:
    q = select(t.name for p in P for t in p.tags)
    a = sorted(q[:]); b = q.order_by(1)[:]
    print(a, b, q.order_by(1).get_sql().replace('\n', ' '))
    assert sorted(b) == a, (a, b)
print('PASS')
