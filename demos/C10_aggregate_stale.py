from pony.orm import *
db = Database('sqlite', ':memory:')
class P(db.Entity):
    name = Required(str)
db.generate_mapping(create_tables=True)
with db_session:
    P(name='a'); P(name='b')
with db_session:
    q = select(p for p in P)
    n1 = q.count()
    P(name='c')
    n2 = q.count()
    print(n1, n2)
    assert (n1, n2) == (2, 3), (n1, n2)
