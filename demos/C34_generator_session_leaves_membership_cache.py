"""C34: a db_session wrapped around a generator function never cleared the per-thread group/role caches consulted by has_perm:
after the generator's session was over, a later session on the same thread decided with the memberships cached by it.
Run: PYTHONPATH=/repo /venv/bin/python demos/C34_generator_session_leaves_membership_cache.py  (exit 0 = no stale decision)"""
from pony.orm import *
from pony.orm.core import user_groups_getter, has_perm, perm

import os, tempfile, threading
fn = os.path.join(tempfile.mkdtemp(), 'c34.sqlite')
db = Database('sqlite', fn, create_db=True)
class Account(db.Entity):
    name = PrimaryKey(str)
    is_admin = Required(bool)
class Doc(db.Entity):
    text = Required(str)
db.generate_mapping(create_tables=True)

@user_groups_getter(str)
def groups_of(username):
    acc = Account.get(name=username)
    return ['admin'] if acc is not None and acc.is_admin else ['user']

with db.set_perms_for(Doc):
    perm('view', group='admin')

with db_session:
    Account(name='bob', is_admin=True); Doc(text='secret')

@db_session
def stream():
    yield has_perm('bob', 'view', Doc)          # membership of bob is cached for this thread
    yield 'done'

answers = list(stream())
print('inside the generator session bob (admin) may view:', answers[0])
def demote():
    with db_session: Account['bob'].is_admin = False
t = threading.Thread(target=demote); t.start(); t.join()     # bob is demoted (by another thread: this thread's caches are untouched)
with db_session:
    later = has_perm('bob', 'view', Doc)
print('after the demotion, in a new session, bob may view:', later)
assert answers[0] is True
assert later is False, 'a new session answered with the group membership cached by the finished generator session'
print('PASS')
