"""C24 (known finding, not repaired): ordering by an attribute of an optional related object joins that object with an INNER join,
so the ordered query silently loses the rows whose reference is NULL -- "ordering a query only permutes its unordered result" fails.
Run: PYTHONPATH=/repo /venv/bin/python demos/C24_order_by_related_attribute_drops_rows_KNOWN.py  (exits 1 while the defect is present)"""
from pony.orm import *
db=Database('sqlite',':memory:')
class G(db.Entity):
    name=Required(str); students=Set('S')
class S(db.Entity):
    n=Required(int)
    g=Optional(G)
db.generate_mapping(create_tables=True)
with db_session:
    g1=G(name='a'); S(n=1,g=g1); S(n=2)
with db_session:
    plain = sorted(s.n for s in select(s for s in S))
    ordered = sorted(s.n for s in select(s for s in S).order_by(lambda s: s.g.name))
    print('unordered query rows:', plain, ' ordered by s.g.name:', ordered)
assert plain == ordered, 'order_by(lambda s: s.g.name) dropped the rows whose g is NULL'
print('PASS')
