"""C13: five failed modifications that leave the session changed (each scenario is independent)."""
from pony.orm import *
import sys
problems = []

def scenario_set():
    # Entity.set(): failed call leaves the object 'modified' (before_update fires at commit although nothing changed)
    db = Database('sqlite', ':memory:')
    log = []
    class P(db.Entity):
        name = Required(str)
        email = Required(str, unique=True)
        def before_update(self): log.append(self.id)
    db.generate_mapping(create_tables=True)
    with db_session:
        P(id=1, name='a', email='a@x'); P(id=2, name='b', email='b@x')
    with db_session:
        p1, p2 = P[1], P[2]
        try: p2.set(name='zzz', email='a@x')
        except CacheIndexError: pass
        else: problems.append('set: no error')
        if p2.name != 'b': problems.append('set: value changed')
        commit()
    if log: problems.append('Entity.set: failed set() left the object pending: before_update ran for %s' % log)

def scenario_delete_created_child():
    # refused parent.delete() that had cascaded to a just-created child: the child's INSERT is lost
    db = Database('sqlite', ':memory:')
    class Parent(db.Entity):
        kids = Set('Kid')                                   # cascades (Kid.parent is Required)
        others = Set('Other', cascade_delete=False)        # refuses
    class Kid(db.Entity):
        parent = Required(Parent)
    class Other(db.Entity):
        parent = Required(Parent)
    db.generate_mapping(create_tables=True)
    with db_session:
        p = Parent(id=1); Other(id=1, parent=p)
    with db_session:
        p = Parent[1]
        k = Kid(id=7, parent=p)
        try: p.delete()
        except ConstraintError: pass
        else: problems.append('delete: no error')
        commit()
    with db_session:
        if Kid.get(id=7) is None: problems.append('_delete_: refused delete dropped the pending INSERT of a created child')

def scenario_m2m_cleared():
    # refused delete clears an m2m collection (Set.__set__ as nested call has no undo): link rows deleted at commit
    db = Database('sqlite', ':memory:')
    class A(db.Entity):
        tags = Set('Tag')
        others = Set('Other', cascade_delete=False)
    class Tag(db.Entity):
        a_s = Set(A)
    class Other(db.Entity):
        a = Required(A)
    db.generate_mapping(create_tables=True)
    with db_session:
        a = A(id=1); a.tags.add(Tag(id=1)); a.tags.add(Tag(id=2)); Other(id=1, a=a)
    with db_session:
        a = A[1]
        try: a.delete()
        except ConstraintError: pass
        else: problems.append('m2m: no error')
        if len(a.tags) != 2: problems.append('Set.__set__: refused delete left the m2m collection with %d items' % len(a.tags))
        commit()
    with db_session:
        n = len(A[1].tags)
        if n != 2: problems.append('Set.__set__: %d of 2 m2m links survive the commit after a refused delete' % n)

def scenario_reverse_remove_undo():
    # undo of Set.reverse_remove uses the last iteration's `in_added`: the undo itself crashes and masks the ConstraintError
    db = Database('sqlite', ':memory:')
    class A(db.Entity):
        tags = Set('Tag')
        others = Set('Other', cascade_delete=False)
    class Tag(db.Entity):
        a_s = Set(A)
    class Other(db.Entity):
        a = Required(A)
    db.generate_mapping(create_tables=True)
    with db_session:
        a = A(id=1); a.tags.add(Tag(id=1)); Other(id=1, a=a)
    with db_session:
        a = A[1]
        list(a.tags)                    # loaded item
        a.tags.add(Tag(id=2))           # just-added item
        try: a.delete()
        except ConstraintError: pass
        except Exception as e: problems.append('reverse_remove: undo crashed with %s: %r instead of ConstraintError' % (type(e).__name__, e))
        else: problems.append('reverse_remove: no error')
        rollback()

def scenario_failed_create():
    db = Database('sqlite', ':memory:')
    class Person(db.Entity):
        passport = Optional('Passport')
    class Passport(db.Entity):
        person = Required(Person)
    db.generate_mapping(create_tables=True)
    with db_session:
        p = Person(id=1); Passport(id=1, person=p)
    with db_session:
        p = Person[1]
        try: Passport(id=2, person=p)
        except ConstraintError: pass
        else: problems.append('create: no error')
        ghost = Passport.get(id=2)
        if ghost is not None: problems.append('failed creation left %r findable by primary key' % ghost)
        rollback()

for f in (scenario_set, scenario_delete_created_child, scenario_m2m_cleared, scenario_reverse_remove_undo, scenario_failed_create):
    if len(sys.argv) > 1 and f.__name__ not in sys.argv[1:]: continue
    try: f()
    except Exception as e: problems.append('%s crashed: %s: %s' % (f.__name__, type(e).__name__, e))
for p in problems: print('VIOLATION:', p)
assert not problems, '%d C13 violations' % len(problems)
print('PASS')
