"""C03: `(a if b else c) or d` in a query condition was decompiled as `(not a if b else c) or d` (repaired by pony commit 5805615).

In a generator's condition both arms of the conditional expression end in a jump-if-true to the loop body (an "or-jump": the rest of the `or`
is skipped).  conditional_jump_new settles the polarity of such a jump itself; the one-item Or clause it leaves on the stack for the `then` arm
was then negated a second time by simplify() when JUMP_FORWARD built the IfExp.  The else arm took another route and was right, so the result
was the asymmetric `(not a if b else c)`: rows were silently selected by the negated condition.

Run: PYTHONPATH=/repo /venv/bin/python demos/C03_conditional_expression_before_or.py   (exit 1 on the tree before the fix)"""
import itertools, sys
from pony.orm import *
from pony.orm.decompiling import decompile
from pony.orm.asttranslation import ast2src
db = Database('sqlite', ':memory:')
class R(db.Entity):
    a = Required(bool); b = Required(bool); c = Required(bool); d = Required(bool)
db.generate_mapping(create_tables=True)
with db_session:
    for vals in itertools.product([False, True], repeat=4): R(a=vals[0], b=vals[1], c=vals[2], d=vals[3])
ok = True
with db_session:
    rows = R.select()[:]
    got = sorted(r.id for r in select(r for r in R if (r.a if r.b else r.c) or r.d))
    want = sorted(r.id for r in rows if (r.a if r.b else r.c) or r.d)
    print('query:', got); print('python:', want)
    ok = got == want
T = [1]; a = b = c = d = True
src = ast2src(decompile(x for x in T if (a if b else c) or d)[0])
print('decompiled:', src)
ok = ok and 'not' not in src
print('PASS' if ok else 'FAIL: the condition was decompiled with a negated branch'); sys.exit(0 if ok else 1)
