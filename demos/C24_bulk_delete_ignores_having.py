"""C24: bulk delete over a grouped query ignored GROUP BY / HAVING: select(g for g in G if count(g.students) > 1).delete(bulk=True)
deleted every group.  Run: PYTHONPATH=/repo /venv/bin/python demos/C24_bulk_delete_ignores_having.py (exit 0 = only the selected rows go)"""
from pony.orm import *
db=Database('sqlite',':memory:')
class G(db.Entity):
    name=Required(str); students=Set('S')
class S(db.Entity):
    g=Optional(G)
db.generate_mapping(create_tables=True)
with db_session:
    g1=G(name='a'); g2=G(name='b'); g3=G(name='c'); S(g=g1); S(g=g1); S(g=g2)
with db_session:
    q = select(g for g in G if count(g.students) > 1)
    print([g.name for g in q])
    n = q.delete(bulk=True)
    left = sorted(select(g.name for g in G)[:])
    print('deleted', n, 'left', left)
assert (n, left) == (1, ['b', 'c']), 'bulk delete removed rows the query does not select'
print('PASS')
