"""C05: two caches ignored parameter values that were folded into the translation (getattr name, string index):
 (1) Query.delete(bulk=True) filed its SQL under a key without fixed_param_values -> the second run with another attribute name
     executed the DELETE built for the first name (wrong rows deleted);
 (2) a query embedded in another query: the outer cached translator kept the embedded query's SQL of the first run.
Run: PYTHONPATH=/repo /venv/bin/python demos/C05_fixed_values_bulk_delete_and_embedded_query.py  (exit 0 = caches are transparent)"""
from pony.orm import *
db = Database('sqlite', ':memory:')
class A(db.Entity):
    name = Required(str); nick = Required(str)
    bs = Set('B')
class B(db.Entity):
    a = Required(A)
db.generate_mapping(create_tables=True)
with db_session:
    a1 = A(id=1, name='x', nick='y'); a2 = A(id=2, name='y', nick='x'); B(id=1, a=a1); B(id=2, a=a2)

def embedded(attr, v):
    with db_session:
        q1 = select(a for a in A if getattr(a, attr) == v)
        return [b.id for b in select(b for b in B if b.a in q1)]
def iterated(attr, v):
    with db_session:
        q1 = select(a for a in A if getattr(a, attr) == v)
        return [a.id for a in select(a for a in q1 if a.id > 0)]
r1, r2 = embedded('name', 'x'), embedded('nick', 'x')
print('embedded  name=x ->', r1, '  nick=x ->', r2)
r3, r4 = iterated('name', 'x'), iterated('nick', 'x')
print('iterated  name=x ->', r3, '  nick=x ->', r4)
def bulk(attr, v):
    with db_session:
        return select(a for a in A if getattr(a, attr) == v).delete(bulk=True)
with db_session: B.select().delete(bulk=True)
bulk('name', 'no such'); bulk('nick', 'x')
with db_session: left = select(a.id for a in A)[:]
print('after bulk delete of nick=x the remaining ids are', left)
assert (r1, r2) == ([1], [2]), 'embedded query served the translation made for another attribute name'
assert (r3, r4) == ([1], [2]), 'query iterated by another query served the translation made for another attribute name'
assert left == [1], 'bulk delete executed the statement built for another attribute name'
print('PASS')
