"""C03: a lambda parameter that a nested generator captures.

    Person.select(lambda s, q: s.a == y and q.b == z and exists(t for t in T if t == s.a))

The parameter `s` is used inside the nested generator, so the compiler makes it a *cell* -- but it keeps its slot among the parameters in the
frame's "fast locals plus" array, and LOAD_DEREF / MAKE_CELL number that array.  The decompiler subtracted len(co_varnames) from the argument and
indexed co_cellvars + co_freevars, which is only right when no cell is a parameter: here it silently reconstructed
`y.a == T and q.b == y and any(t for t in s if t == s.a)` -- other variables than the source names.  Fixed: the argument indexes
co_varnames + (cells that are not parameters) + co_freevars, CPython's layout.

Run: PYTHONPATH=/repo /venv/bin/python demos/C03_lambda_parameter_captured_by_nested_generator.py   (exit 0 = property holds)"""
import ast
from pony.orm.decompiling import decompile
from pony.orm.asttranslation import ast2src
rc = 0
def check(f, want):
    global rc
    got = ast2src(decompile(f)[0])
    ok = ast.dump(ast.parse(got, mode='eval')) == ast.dump(ast.parse(want, mode='eval'))
    print(('ok   ' if ok else 'WRONG'), want, '' if ok else '\n      decompiled as: ' + got)
    if not ok: rc = 1
def mk():
    y = 1; z = 2; T = [1]
    check(lambda s, q: s.a == y and q.b == z and any(t for t in T if t == s.a), 's.a == y and q.b == z and any(t for t in T if t == s.a)')
    check(lambda s: any(t for t in T if t == s.a) and s.b == y, 'any(t for t in T if t == s.a) and s.b == y')
    check(lambda s, q: s.a == y and q.b == z, 's.a == y and q.b == z')
mk()
# and through the public API
from pony.orm import *
db = Database('sqlite', ':memory:')
class P(db.Entity):
    a = Required(int)
    b = Required(int)
class T2(db.Entity):
    x = Required(int)
db.generate_mapping(create_tables=True)
with db_session:
    P(a=1, b=2); P(a=5, b=2); T2(x=1)
    y = 1
    got = sorted(p.a for p in P.select(lambda p: p.b == 2 and exists(t for t in T2 if t.x == p.a) and p.a == y))
    print('query ->', got, ' Python:', [1])
    if got != [1]: rc = 1
print('PASS' if rc == 0 else 'FAIL')
raise SystemExit(rc)
