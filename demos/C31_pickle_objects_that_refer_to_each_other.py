"""C31: loaded objects that refer to each other can be pickled (repaired by pony commit 5b3154d).

Entity.__reduce__ used to return (unpickle_entity, (d,)) where d held every loaded non-collection attribute value -- related *objects* included.
pickle memoises an object only after the arguments of its reduce value have been written, so when Student.passport and Passport.student (the
two sides of a one-to-one) were both loaded, pickling the student pickled the passport, which pickled the student again, ... RecursionError.
Now the key travels in the arguments (unpickle_entity_by_pk) and the attribute values in the pickle state (Entity.__setstate__ -> _db_set_).

Run: PYTHONPATH=/repo /venv/bin/python demos/C31_pickle_objects_that_refer_to_each_other.py   (exit 1 on the tree before the fix)"""
import pickle, sys
from pony.orm import *
db = Database('sqlite', ':memory:')
class Student(db.Entity):
    name = Required(str)
    passport = Optional('Passport')
class Passport(db.Entity):
    no = Required(str)
    student = Required(Student)
db.generate_mapping(create_tables=True)
with db_session:
    Passport(no='X1', student=Student(name='Ann'))
with db_session:
    s = Student[1]
    print('loaded:', s.name, s.passport.no)            # both sides of the one-to-one are loaded now
    try: data = pickle.dumps(s)
    except RecursionError:
        print('FAIL: pickle.dumps(student) raised RecursionError'); sys.exit(1)
with db_session:
    s2 = pickle.loads(data)
    ok = (s2.name, s2.passport.no, s2.passport.student is s2) == ('Ann', 'X1', True)
print('PASS' if ok else 'FAIL: unpickled values differ'); sys.exit(0 if ok else 1)
