"""C03: an f-string consisting of a single replacement field (f'{x!r}', f'{y:.2f}', f'{n}') was decompiled to the bare value x: conversion and
format spec were silently dropped (and f'{x!r:>5}' crashed with UnboundLocalError).
Run: PYTHONPATH=/repo /venv/bin/python demos/C03_lone_fstring_field_decompiled_as_plain_value.py  (exit 0 = meaning preserved)"""
bad = []
import ast
from pony.orm.decompiling import decompile
from pony.orm.asttranslation import ast2src
x = 'a'; c = 2; y = 3.14159
cases = ["lambda: f'{x!r}'", "lambda: f'{y:.{c}f}'", "lambda: f'{x!r}-{y}'", "lambda: f'{y:.2f}'", "lambda: f'{x!r:>5}'", "lambda: f'{x!s}'", "lambda: f'{x!a}'", "lambda: f'{y:>{c}}'", "lambda: f'[{x}]'", "lambda: f'{x}'"]
for src in cases:
    f = eval(src)
    try:
        tree = decompile(f)[0]
        out = ast2src(tree)
        v1 = f(); v2 = eval(out)
        print('%-26s -> %-22s %s' % (src, out, 'ok' if v1 == v2 else 'DIFFERENT: %r vs %r' % (v1, v2)))
        if v1 != v2: bad.append(src)
    except Exception as e:
        print('%-26s -> EXC %s %s' % (src, type(e).__name__, e)); bad.append(src)
assert not bad, 'decompiled tree means something else than the source for: %s' % bad
print('PASS')
