"""C03: a generator whose element is a conditional expression and which has an `if` filter was decompiled with the filter merged into the
condition of the element: ((a if b else c) for x in T if d)  ->  (a if d and b else c for x in T): rows the filter rejects were returned.
Run: PYTHONPATH=/repo /venv/bin/python demos/C03_filter_merged_into_conditional_expression.py  (exit 0 = meaning preserved)"""
import ast
from pony.orm import *
from pony.orm.decompiling import decompile
from pony.orm.asttranslation import ast2src
T = [1, 2]; a = b = c = d = e = 1
bad = []
for src in ["((a if b else c) for x in T if d)", "((a if b else c) for x in T if d and e)", "((a if b or e else c) for x in T if d)", "((a if b else c) + 1 for x in T if d)"]:
    out = ast2src(decompile(eval(src))[0]).replace('.0', 'T')
    same = ast.dump(ast.parse(out, mode='eval')) == ast.dump(ast.parse('(' + src[1:-1] + ')', mode='eval'))
    print('%-45s -> %-45s %s' % (src, out, 'ok' if same else 'DIFFERENT'))
    if not same: bad.append(src)
db = Database('sqlite', ':memory:')
class Item(db.Entity):
    n = Required(int)
db.generate_mapping(create_tables=True)
with db_session:
    for i in range(1, 11): Item(n=i)
    got = sorted(select((i.n if i.n > 3 else -i.n) for i in Item if i.n != 8)[:])
    want = sorted((i.n if i.n > 3 else -i.n) for i in Item.select()[:] if i.n != 8)
    print('query :', got); print('python:', want)
assert not bad and got == want, 'the filter of the generator was merged into the conditional expression of its element'
print('PASS')
