"""Exclusions are ignored for objects: has_perm tests `obj in rule.entities_to_exclude` (a set of entity classes)."""
from pony.orm import *
from pony.orm.core import has_perm, can_view
db = Database('sqlite', ':memory:')
class Doc(db.Entity):
    title = Required(str)
class Secret(Doc):
    pass
with db.set_perms_for(Doc, Secret):
    perm('view', group='staff').exclude(Secret)
db.generate_mapping(create_tables=True)
@user_groups_getter(str)
def groups(u): return ['staff']
with db_session:
    d = Doc(title='d'); s = Secret(title='s'); flush()
    r = dict(entity_Doc=can_view('u', Doc), entity_Secret=can_view('u', Secret), obj_doc=can_view('u', d), obj_secret=can_view('u', s))
    print(r)
    assert r == dict(entity_Doc=True, entity_Secret=False, obj_doc=True, obj_secret=False), 'an object of the excluded entity is viewable: %r' % r
    try: db.to_json(select(x for x in Doc), with_schema=False) if False else None
    except Exception: pass
print('PASS')
