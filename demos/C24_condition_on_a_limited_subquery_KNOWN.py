"""C24 (KNOWN, not repaired): a condition added to a query that iterates over a limited query is applied *before* the limit.

    q = select(p for p in P).order_by(P.age)            # ages 20..27
    sub = q.limit(5, offset=2)                           # rows 22 23 24 25 26
    select(p for p in sub if p.age > 23)                 # Python on those rows: 24 25 26

SQLTranslator.process_query_qual "extends" the previous translator when the new query iterates over a whole query: the new condition is added
to the previous query's WHERE and the previous limit / offset are kept -- WHERE age > 23 ORDER BY age LIMIT 5 OFFSET 2 -- which selects 26 27.
Refusing the extension whenever the previous query is limited gives the right rows (the limited query becomes a subquery in FROM), but it also
changes the result of pony's own test_select_from_select_queries.test_44 (a pure projection over an ordered, limited query, whose order the
extension happens to preserve), so it is not a small patch; recorded, not fixed.

Run: PYTHONPATH=/repo /venv/bin/python demos/C24_condition_on_a_limited_subquery_KNOWN.py   (exit 1 while the defect is present)"""
import sys
from pony.orm import *
db = Database('sqlite', ':memory:')
class P(db.Entity):
    age = Required(int)
db.generate_mapping(create_tables=True)
with db_session:
    for a in (20, 21, 22, 23, 24, 25, 26, 27): P(age=a)
with db_session:
    q = select(p for p in P).order_by(P.age)
    window = q[:][2:7]
    want = sorted(p.age for p in window if p.age > 23)
    got = sorted(p.age for p in select(p for p in q.limit(5, offset=2) if p.age > 23))
    print('rows of the limited query:', [p.age for p in window]); print('python:', want, ' query:', got)
ok = got == want
print('PASS' if ok else 'FAIL: the condition was applied before the limit'); sys.exit(0 if ok else 1)
