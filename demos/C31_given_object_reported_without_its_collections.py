"""C31: an object given to the serialisation bag is reported in full, whatever the order.

to_dict([student, group]): the student is processed first, its group is visited as a *related* object (attribute values only, no collections)
and entered into the scratch table; when the loop reaches the group that was *given*, `if obj not in dicts` skipped it -- the group was reported
without `students`, although to_dict([group, student]) reports it with them.  The converse overwrite existed too: the guard of the related-object
visit, `related_obj not in bag.dicts`, tested the table of tables (keyed by entity) and was always true, so a related visit replaced a full
entry by a partial one.

Run: PYTHONPATH=/repo /venv/bin/python demos/C31_given_object_reported_without_its_collections.py   (exit 1 on the tree before pony commit c1ea7b1)"""
import sys
from pony.orm import *
from pony.orm.serialization import to_dict
db = Database('sqlite', ':memory:')
class Faculty(db.Entity):
    name = Required(str); groups = Set('Group')
class Group(db.Entity):
    name = Required(str); faculty = Required(Faculty); students = Set('Student')
class Student(db.Entity):
    name = Required(str); group = Required(Group)
db.generate_mapping(create_tables=True)
with db_session:
    f = Faculty(name='f'); g = Group(name='g', faculty=f); Student(name='a', group=g); Student(name='b', group=g)
ok = True
with db_session:
    s, g, f = Student[1], Group[1], Faculty[1]
    want = {'id': 1, 'name': 'g', 'faculty': 1, 'students': [1, 2]}
    for order in ([g, s], [s, g], [f, g, s], [s, g, f], [g, f]):
        got = to_dict(order)['Group'][1]
        print([o.__class__.__name__ for o in order], '->', got)
        ok = ok and got == want
print('PASS' if ok else 'FAIL: a given object is reported without its collections for some orders'); sys.exit(0 if ok else 1)
