"""C29: arr[-2] on a one-element array is out of range (Python: IndexError; in a query: NULL).

For a negative index the builder computes the absolute position as length - k and hands it to py_array_index, which evaluated array[position]
with Python's list indexing: a position of -1 wrapped around and returned the LAST item (arr[-2] of [10] gave 10, arr[-4] of [10, 20, 30] gave 30).
Fixed: a negative computed position gives NULL like any other index out of range.

Run: PYTHONPATH=/repo /venv/bin/python demos/C29_negative_array_index_wraps_around.py   (exit 0 = property holds)"""
from pony.orm import *
db = Database('sqlite', ':memory:')
class D(db.Entity):
    arr = Required(IntArray)
db.generate_mapping(create_tables=True)
with db_session:
    D(arr=[10]); D(arr=[10, 20, 30])
rc = 0
with db_session:
    rows = {tuple(d.arr): d for d in D.select()}
    for k in (-1, -2, -3, -4, 0, 1, 3):
        got = dict(select((d.id, d.arr[k]) for d in D))
        n = k
        got2 = dict(select((d.id, d.arr[n]) for d in D))
        for arr, d in rows.items():
            try: want = list(arr)[k]
            except IndexError: want = None
            for how, g in (('const', got), ('param', got2)):
                if g[d.id] != want: rc = 1; print('arr=%r [%d] (%s): query %r, Python %r' % (list(arr), k, how, g[d.id], want))
print('PASS' if rc == 0 else 'FAIL'); raise SystemExit(rc)
