"""KNOWN FINDING (static evidence + builder run with a stubbed driver module; no MySQL server in the sandbox):
MySQLValue inherits Value.quote_str, which only doubles single quotes.  In MySQL's default SQL mode a backslash is an escape
character inside string literals, so the inline literal for 'a\\' is emitted as 'a\\' -- the backslash swallows the closing
quote and the statement structure changes."""
import sys, types
for name in ('MySQLdb', 'MySQLdb.converters', 'MySQLdb.constants'):
    m = types.ModuleType(name); sys.modules[name] = m
sys.modules['MySQLdb'].converters = sys.modules['MySQLdb.converters']; sys.modules['MySQLdb'].constants = sys.modules['MySQLdb.constants']
sys.modules['MySQLdb.converters'].escape_str = lambda s: s
sys.modules['MySQLdb.converters'].conversions = {}
sys.modules['MySQLdb.constants'].FIELD_TYPE = types.SimpleNamespace(BLOB=252, TIMESTAMP=7, TIME=11, DATETIME=12)
sys.modules['MySQLdb.constants'].FLAG = types.SimpleNamespace(BINARY=128)
sys.modules['MySQLdb'].Warning = type('Warning', (Exception,), {})
sys.modules['MySQLdb'].string_literal = lambda s: s
sys.modules['MySQLdb.constants'].CLIENT = types.SimpleNamespace(FOUND_ROWS=2)
from pony.orm.dbproviders.mysql import MySQLValue
lit = str(MySQLValue('format', 'a\\'))
print('inline literal for the one-backslash string a\\ :', lit)
# MySQL lexer (default sql_mode, NO_BACKSLASH_ESCAPES off): backslash escapes the next character
def mysql_literal_ends_properly(text):
    assert text[0] == "'"
    i = 1
    while i < len(text):
        if text[i] == '\\': i += 2; continue
        if text[i] == "'":
            if i + 1 < len(text) and text[i + 1] == "'": i += 2; continue
            return i == len(text) - 1
        i += 1
    return False
assert mysql_literal_ends_properly(lit), 'the literal does not terminate where pony thinks it does: %s' % lit
print('PASS')
