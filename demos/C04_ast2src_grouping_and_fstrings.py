"""ast2src must regenerate text that parses back to the same tree / evaluates to the same value."""
import ast
from pony.orm.asttranslation import ast2src
bad = []
for src in ['(a if c else b) + 1', '-(a if c else b)', '(lambda: a) or b', '(a + b).x', '(a or b)(y)', '(a + b)[0]', '(1).real', '(a ** b) ** c', '(a < b) == c', 'a - (b - c)']:
    out = ast2src(ast.parse(src, mode='eval').body)
    try: same = ast.dump(ast.parse(out, mode='eval').body) == ast.dump(ast.parse(src, mode='eval').body)
    except SyntaxError: same = False
    if not same: bad.append('%s -> %s' % (src, out))
a, x, n = 5, 'v', 3
for src in ['f"{a:>3}"', 'f"{{x}}"', 'f"{a!r:>{n}}"']:
    out = ast2src(ast.parse(src, mode='eval').body)
    if eval(out) != eval(src): bad.append('%s -> %s' % (src, out))
try: out = ast2src(ast.parse('lambda *, y=1: y', mode='eval').body)
except NotImplementedError: pass
else: bad.append('lambda *, y=1: y -> %s' % out)
for b in bad: print('CHANGED', b)
assert not bad
print('PASS')
