"""C28: Json and array values of an unpickled object are tracked values again (repaired by pony commit be56088).

TrackedDict / TrackedList pickle as plain dict / list.  On unpickling, Entity._db_set_(..., unpickling=True) stored those plain containers as the
attribute values: an in-place change (p.info['a'].append(2), p.tags.append(3)) did not reach _attr_changed_, the object stayed 'loaded' and the
change was silently lost at commit.  The values now go back through the converter (val2dbval, dbval2val with the owner), as on a load.

Run: PYTHONPATH=/repo /venv/bin/python demos/C28_unpickled_json_value_is_not_tracked.py   (exit 1 on the tree before the fix)"""
import pickle, sys
from pony.orm import *
db = Database('sqlite', ':memory:')
class P(db.Entity):
    info = Required(Json); tags = Optional(IntArray)
db.generate_mapping(create_tables=True)
with db_session:
    P(info={'a': [1]}, tags=[1, 2])
with db_session:
    p = P[1]; p.info; p.tags
    data = pickle.dumps(p)
with db_session:
    p = pickle.loads(data)
    print('types after unpickling:', type(p.info).__name__, type(p.tags).__name__)
    p.info['a'].append(2); p.tags.append(3)
    print('status after the in-place changes:', p._status_)
with db_session:
    p = P[1]; stored = (p.info, list(p.tags)); print('stored:', stored)
ok = stored == ({'a': [1, 2]}, [1, 2, 3])
print('PASS' if ok else 'FAIL: in-place changes of the unpickled Json / array values were not written'); sys.exit(0 if ok else 1)
