"""C04: `(-2) ** x` with an outer-scope x.

The compiler folds `-2` into one constant; PythonTranslator rendered it as `-2` with the priority of an atom, so the regenerated
source of the outer-scope expression was `-2 ** x`, which Python reads as -(2 ** x): the query received -4 instead of 4.
Fixed: a negative numeric constant has the priority of a unary minus expression and is parenthesised where the grammar needs it.

Run: PYTHONPATH=/repo /venv/bin/python demos/C04_negative_constant_base_of_power.py   (exit 0 = property holds)"""
from pony.orm import *
db = Database('sqlite', ':memory:')
class T(db.Entity):
    n = Required(int)
db.generate_mapping(create_tables=True)
with db_session:
    T(n=1)
x = 2
rc = 0
with db_session:
    got = select((t.n, (-2) ** x) for t in T)[:]
    print('select((t.n, (-2) ** x) ...) ->', got, ' Python:', [(1, (-2) ** x)])
    if got != [(1, (-2) ** x)]: rc = 1
    got = select(t.n for t in T if t.n == (-1.0) ** x)[:]
    print('select(t.n ... if t.n == (-1.0) ** x) ->', got, ' Python:', [1])
    if got != [1]: rc = 1
print('PASS' if rc == 0 else 'FAIL')
raise SystemExit(rc)
