"""C36: db.disconnect() in a forked child must not close the connection the parent opened.

"Disconnect after fork" is the usual advice for getting rid of inherited handles.  Pool.connect() parks an inherited connection (it keeps a
reference in forked_connections so that no finaliser closes it), but Pool.disconnect() closed whatever the pool held, without comparing the
pool's pid with os.getpid().  Closing a network connection is a statement on the wire: MySQL drivers send COM_QUIT, psycopg2 sends Terminate --
on the socket the parent still uses, so the parent's server session ends.  No database server is available here: the demo drives pony's own
Pool class with a stub DB-API module whose connections write on a pipe that stands for the shared socket.

Run: PYTHONPATH=/repo /venv/bin/python demos/C36_disconnect_in_child_closes_parents_connection.py"""
import os, sys, types
from pony.orm.dbapiprovider import Pool
r, w = os.pipe(); os.set_blocking(r, False)
class Connection(object):
    def __init__(con): con.opened_by = os.getpid()
    def rollback(con): os.write(w, b'ROLLBACK pid=%d on connection of %d\n' % (os.getpid(), con.opened_by))
    def close(con): os.write(w, b'QUIT pid=%d on connection of %d\n' % (os.getpid(), con.opened_by))
stub = types.SimpleNamespace(connect=lambda *a, **k: Connection())
pool = Pool(stub)
con, _ = pool.connect()                        # the parent's pooled connection (idle)
pid = os.fork()
if pid == 0:
    try: pool.disconnect()                     # what Database.disconnect() does in the child
    finally: os._exit(0)
os.waitpid(pid, 0)
try: wire = os.read(r, 4096).decode()
except BlockingIOError: wire = ''
print('written on the parent\'s socket by the child: %r' % wire)
ok = wire == '' and pool.connect()[0] is con   # nothing on the wire, and the parent still has its connection
print('PASS' if ok else 'FAIL: the child closed the connection its parent opened'); sys.exit(0 if ok else 1)
